// Package fakemc is a stateful fake memcached speaking the binary protocol,
// written from the memcached protocol documents (not from the code under
// test).  It validates every request strictly, keeps a request log, and offers
// a control surface for tests: eviction, fault plans, gating, accept log.
package fakemc

import (
	"bufio"
	"encoding/binary"
	"fmt"
	"io"
	"net"
	"sort"
	"sync"
	"time"
)

const (
	OpGet      = 0x00
	OpSet      = 0x01
	OpAdd      = 0x02
	OpReplace  = 0x03
	OpDelete   = 0x04
	OpQuit     = 0x07
	OpGetQ     = 0x09
	OpNoop     = 0x0a
	OpVersion  = 0x0b
	OpAppend   = 0x0e
	OpPrepend  = 0x0f
	OpSetQ     = 0x11
	OpAddQ     = 0x12
	OpReplaceQ = 0x13
	OpTouch    = 0x1c
	OpGat      = 0x1d
	OpGatQ     = 0x1e
	OpGetE     = 0x40
	OpGetEQ    = 0x41

	StOK        = 0x0000
	StNotFound  = 0x0001
	StExists    = 0x0002
	StTooBig    = 0x0003
	StInval     = 0x0004
	StNotStored = 0x0005
	StUnknown   = 0x0081
	StNoMem     = 0x0082

	MaxRelative = 60 * 60 * 24 * 30
)

// Entry is one stored item.
type Entry struct {
	Value    []byte
	Flags    uint32
	RawExp   uint32 // exptime as last received
	SetAt    int64  // unix seconds at which RawExp was received
	Deadline int64  // 0 = never, else absolute unix seconds
}

func (e *Entry) LiveAt(now int64) bool { return e.Deadline == 0 || e.Deadline > now }

// Req is one logged request.
type Req struct {
	Index    int // global index since last Reset/ResetLog
	Conn     int // connection id
	Seq      int // index on that connection
	Opcode   byte
	Key      string
	Flags    uint32
	Exptime  uint32
	ValueLen int
	Value    []byte // only if LogValues
	Opaque   uint32
	Buffered int    // bytes already buffered behind this request when it was read
	Status   uint16 // status replied (0xffff = no reply / silent)
	Hit      bool   // for reads: was a value returned
	Bad      string // non-empty: request was malformed
}

// FaultKind enumerates injected faults.
type FaultKind int

const (
	FaultNone            FaultKind = iota
	FaultStatus                    // reply with Status (body "fault") instead of processing
	FaultCloseBefore               // close before processing
	FaultCloseAfterProc            // process, then close without replying
	FaultCloseMidReply             // process, write Bytes bytes of the reply, close
	FaultCloseAfterReply           // process, reply fully, then close
)

func (k FaultKind) String() string {
	return [...]string{"none", "status", "close-before", "close-after-proc", "close-mid-reply", "close-after-reply"}[k]
}

// Fault is one entry of a fault plan.  It fires for the request whose global
// index (since Arm) equals At, or — if Match is set — for the first request
// for which Match returns true.  Each fault fires at most once unless Repeat.
type Fault struct {
	At     int
	Match  func(r *Req) bool
	Kind   FaultKind
	Status uint16
	Bytes  int
	Repeat bool
	fired  int
}

type ConnEvent struct {
	Conn   int
	Accept bool // true accept, false close
}

type Server struct {
	mu       sync.Mutex
	store    map[string]*Entry
	log      []Req
	logOn    bool
	nextIdx  int
	faults   []*Fault
	armBase  int
	conns    map[int]net.Conn
	nextConn int
	events   []ConnEvent
	accepts  int
	bad      []string
	ln       net.Listener

	// Options (set before use / under Lock via setters)
	LogValues   bool
	TouchExtras bool         // TOUCH success reply carries 4 bytes of flags extras
	Before      func(r *Req) // called (without the lock) after a request is read, before processing
	Now         func() int64
	refuse      bool
}

func New() *Server {
	return &Server{
		store:       map[string]*Entry{},
		conns:       map[int]net.Conn{},
		logOn:       true,
		TouchExtras: true,
		Now:         func() int64 { return time.Now().Unix() },
	}
}

// Serve accepts connections from ln until it is closed.
func (s *Server) Serve(ln net.Listener) {
	s.mu.Lock()
	s.ln = ln
	s.mu.Unlock()
	for {
		c, err := ln.Accept()
		if err != nil {
			return
		}
		s.mu.Lock()
		if s.refuse {
			s.mu.Unlock()
			c.Close()
			continue
		}
		s.mu.Unlock()
		s.ServeConn(c)
	}
}

// ListenUnix starts serving on a unix socket path.
func (s *Server) ListenUnix(path string) error {
	ln, err := net.Listen("unix", path)
	if err != nil {
		return err
	}
	go s.Serve(ln)
	return nil
}

// ListenTCP starts serving on a loopback TCP port (0 = any) and returns the address.
func (s *Server) ListenTCP(addr string) (string, error) {
	ln, err := net.Listen("tcp", addr)
	if err != nil {
		return "", err
	}
	go s.Serve(ln)
	return ln.Addr().String(), nil
}

// StopListening closes the listener, so that new dials are refused by the
// kernel; connections already accepted stay open.  ListenTCP/ListenUnix on the
// same address starts accepting again.
func (s *Server) StopListening() {
	s.mu.Lock()
	ln := s.ln
	s.ln = nil
	s.mu.Unlock()
	if ln != nil {
		ln.Close()
	}
}

// Refuse makes the accept loop close new connections immediately.
func (s *Server) Refuse(on bool) {
	s.mu.Lock()
	s.refuse = on
	s.mu.Unlock()
}

// ServeConn serves one connection in a new goroutine.
func (s *Server) ServeConn(c net.Conn) int {
	s.mu.Lock()
	id := s.nextConn
	s.nextConn++
	s.conns[id] = c
	s.accepts++
	s.events = append(s.events, ConnEvent{id, true})
	s.mu.Unlock()
	go s.handle(id, c)
	return id
}

func (s *Server) dropConn(id int, c net.Conn) {
	c.Close()
	s.mu.Lock()
	if _, ok := s.conns[id]; ok {
		delete(s.conns, id)
		s.events = append(s.events, ConnEvent{id, false})
	}
	s.mu.Unlock()
}

// ---- control surface ----

func (s *Server) Reset() {
	s.mu.Lock()
	s.store = map[string]*Entry{}
	s.log = nil
	s.nextIdx = 0
	s.faults = nil
	s.armBase = 0
	s.bad = nil
	s.mu.Unlock()
}

func (s *Server) ResetLog() {
	s.mu.Lock()
	s.log = nil
	s.mu.Unlock()
}

func (s *Server) SetLogging(on bool) {
	s.mu.Lock()
	s.logOn = on
	s.mu.Unlock()
}

// Log returns a copy of the request log.
func (s *Server) Log() []Req {
	s.mu.Lock()
	defer s.mu.Unlock()
	out := make([]Req, len(s.log))
	copy(out, s.log)
	return out
}

// LogLen returns the number of logged requests.
func (s *Server) LogLen() int {
	s.mu.Lock()
	defer s.mu.Unlock()
	return len(s.log)
}

// ReqCount returns the number of requests received since Reset.
func (s *Server) ReqCount() int {
	s.mu.Lock()
	defer s.mu.Unlock()
	return s.nextIdx
}

// Bad returns descriptions of malformed requests seen since Reset.
func (s *Server) Bad() []string {
	s.mu.Lock()
	defer s.mu.Unlock()
	return append([]string(nil), s.bad...)
}

// Snapshot returns copies of all entries (live or not).
func (s *Server) Snapshot() map[string]Entry {
	s.mu.Lock()
	defer s.mu.Unlock()
	out := make(map[string]Entry, len(s.store))
	for k, e := range s.store {
		c := *e
		c.Value = append([]byte(nil), e.Value...)
		out[k] = c
	}
	return out
}

// Live returns copies of the entries that are live now.
func (s *Server) Live() map[string]Entry {
	now := s.Now()
	snap := s.Snapshot()
	for k, e := range snap {
		if !e.LiveAt(now) {
			delete(snap, k)
		}
	}
	return snap
}

// Keys returns the sorted keys of live entries.
func (s *Server) Keys() []string {
	l := s.Live()
	ks := make([]string, 0, len(l))
	for k := range l {
		ks = append(ks, k)
	}
	sort.Strings(ks)
	return ks
}

// Evict removes entries directly (simulating cache eviction).
func (s *Server) Evict(keys ...string) int {
	s.mu.Lock()
	defer s.mu.Unlock()
	n := 0
	for _, k := range keys {
		if _, ok := s.store[k]; ok {
			delete(s.store, k)
			n++
		}
	}
	return n
}

// Put stores an entry directly.
func (s *Server) Put(key string, e Entry) {
	s.mu.Lock()
	c := e
	c.Value = append([]byte(nil), e.Value...)
	s.store[key] = &c
	s.mu.Unlock()
}

// Arm installs a fault plan; indices in the plan are relative to the number
// of requests received so far.
func (s *Server) Arm(faults ...*Fault) {
	s.mu.Lock()
	s.faults = faults
	s.armBase = s.nextIdx
	s.mu.Unlock()
}

func (s *Server) Disarm() { s.Arm() }

// FaultsFired returns how many times the armed faults fired.
func (s *Server) FaultsFired() int {
	s.mu.Lock()
	defer s.mu.Unlock()
	n := 0
	for _, f := range s.faults {
		n += f.fired
	}
	return n
}

func (s *Server) OpenConns() int {
	s.mu.Lock()
	defer s.mu.Unlock()
	return len(s.conns)
}

func (s *Server) Accepts() int {
	s.mu.Lock()
	defer s.mu.Unlock()
	return s.accepts
}

func (s *Server) Events() []ConnEvent {
	s.mu.Lock()
	defer s.mu.Unlock()
	return append([]ConnEvent(nil), s.events...)
}

// CloseConns closes all open connections (cutting them).
func (s *Server) CloseConns() int {
	s.mu.Lock()
	cs := make([]net.Conn, 0, len(s.conns))
	for _, c := range s.conns {
		cs = append(cs, c)
	}
	s.mu.Unlock()
	for _, c := range cs {
		c.Close()
	}
	return len(cs)
}

// ---- protocol ----

// Deadline is memcached's reading of an exptime field received at time now.
func Deadline(exp uint32, now int64) int64 { return deadline(exp, now) }

func deadline(exp uint32, now int64) int64 {
	if exp == 0 {
		return 0
	}
	if exp <= MaxRelative {
		return now + int64(exp)
	}
	return int64(exp)
}

type reply struct {
	status uint16
	extras []byte
	value  []byte
	silent bool
}

func errReply(st uint16) reply {
	var body string
	switch st {
	case StNotFound:
		body = "Not found"
	case StExists:
		body = "Data exists for key."
	case StNotStored:
		body = "Not stored."
	case StInval:
		body = "Invalid arguments"
	case StUnknown:
		body = "Unknown command"
	case StTooBig:
		body = "Too large."
	case StNoMem:
		body = "Out of memory"
	default:
		body = "fault"
	}
	return reply{status: st, value: []byte(body)}
}

func (r reply) bytes(opcode byte, opaque uint32) []byte {
	out := make([]byte, 24+len(r.extras)+len(r.value))
	out[0] = 0x81
	out[1] = opcode
	out[4] = byte(len(r.extras))
	binary.BigEndian.PutUint16(out[6:8], r.status)
	binary.BigEndian.PutUint32(out[8:12], uint32(len(r.extras)+len(r.value)))
	binary.BigEndian.PutUint32(out[12:16], opaque)
	copy(out[24:], r.extras)
	copy(out[24+len(r.extras):], r.value)
	return out
}

func (s *Server) handle(id int, c net.Conn) {
	defer s.dropConn(id, c)
	br := bufio.NewReaderSize(c, 1<<16)
	bw := bufio.NewWriterSize(c, 1<<16)
	seq := 0
	hdr := make([]byte, 24)
	for {
		if _, err := io.ReadFull(br, hdr); err != nil {
			return
		}
		req := Req{Conn: id, Seq: seq, Opcode: hdr[1], Status: 0xffff}
		seq++
		keyLen := int(binary.BigEndian.Uint16(hdr[2:4]))
		extLen := int(hdr[4])
		total := int(binary.BigEndian.Uint32(hdr[8:12]))
		req.Opaque = binary.BigEndian.Uint32(hdr[12:16])
		if hdr[0] != 0x80 {
			req.Bad = fmt.Sprintf("bad magic %#x", hdr[0])
		} else if total < keyLen+extLen {
			req.Bad = fmt.Sprintf("total %d < key %d + extras %d", total, keyLen, extLen)
		} else if total > 64<<20 {
			req.Bad = fmt.Sprintf("absurd total %d", total)
		} else if hdr[5] != 0 {
			req.Bad = "datatype != 0"
		}
		if req.Bad != "" {
			s.record(&req, true)
			return // cannot resync
		}
		body := make([]byte, total)
		if _, err := io.ReadFull(br, body); err != nil {
			return
		}
		extras := body[:extLen]
		req.Key = string(body[extLen : extLen+keyLen])
		value := body[extLen+keyLen:]
		req.ValueLen = len(value)
		req.Buffered = br.Buffered()
		if s.LogValues {
			req.Value = append([]byte(nil), value...)
		}

		wantExt, hasVal, known := 0, false, true
		switch req.Opcode {
		case OpGet, OpGetQ, OpGetE, OpGetEQ, OpDelete:
		case OpSet, OpAdd, OpReplace, OpSetQ, OpAddQ, OpReplaceQ:
			wantExt, hasVal = 8, true
		case OpAppend, OpPrepend:
			hasVal = true
		case OpTouch, OpGat, OpGatQ:
			wantExt = 4
		case OpNoop, OpVersion, OpQuit:
		default:
			known = false
		}
		if known {
			switch {
			case extLen != wantExt:
				req.Bad = fmt.Sprintf("opcode %#x: extras length %d, want %d", req.Opcode, extLen, wantExt)
			case !hasVal && len(value) != 0:
				req.Bad = fmt.Sprintf("opcode %#x: unexpected value of %d bytes", req.Opcode, len(value))
			case (req.Opcode == OpNoop || req.Opcode == OpVersion || req.Opcode == OpQuit) && keyLen != 0:
				req.Bad = fmt.Sprintf("opcode %#x: unexpected key", req.Opcode)
			case req.Opcode != OpNoop && req.Opcode != OpVersion && req.Opcode != OpQuit && keyLen == 0:
				req.Bad = fmt.Sprintf("opcode %#x: empty key", req.Opcode)
			}
		}
		if wantExt == 8 && extLen == 8 {
			req.Flags = binary.BigEndian.Uint32(extras[0:4])
			req.Exptime = binary.BigEndian.Uint32(extras[4:8])
		} else if wantExt == 4 && extLen == 4 {
			req.Exptime = binary.BigEndian.Uint32(extras[0:4])
		}

		if s.Before != nil {
			s.Before(&req)
		}

		// fault lookup + processing under the lock
		s.mu.Lock()
		req.Index = s.nextIdx
		s.nextIdx++
		var fault *Fault
		for _, f := range s.faults {
			if f.fired > 0 && !f.Repeat {
				continue
			}
			if f.Match != nil {
				if f.Match(&req) {
					fault = f
				}
			} else if f.At+s.armBase == req.Index {
				fault = f
			}
			if fault != nil {
				f.fired++
				break
			}
		}
		kind := FaultNone
		if fault != nil {
			kind = fault.Kind
		}
		var rep reply
		switch {
		case kind == FaultCloseBefore:
			s.logLocked(&req)
			s.mu.Unlock()
			return
		case kind == FaultStatus:
			rep = errReply(fault.Status)
			rep.value = []byte("fault")
		case req.Bad != "":
			rep = errReply(StInval)
		case !known:
			rep = errReply(StUnknown)
		default:
			rep = s.process(&req, value)
		}
		if !rep.silent {
			req.Status = rep.status
		}
		s.logLocked(&req)
		s.mu.Unlock()

		if kind == FaultCloseAfterProc {
			return
		}
		if !rep.silent {
			out := rep.bytes(req.Opcode, req.Opaque)
			if kind == FaultCloseMidReply {
				n := fault.Bytes
				if n < 0 {
					n = len(out) + n
				}
				if n > len(out) {
					n = len(out)
				}
				if n < 0 {
					n = 0
				}
				bw.Write(out[:n])
				bw.Flush()
				return
			}
			bw.Write(out)
		}
		if kind == FaultCloseAfterReply || kind == FaultCloseMidReply {
			bw.Flush()
			return
		}
		if req.Opcode == OpQuit {
			bw.Flush()
			return
		}
		if br.Buffered() == 0 {
			if err := bw.Flush(); err != nil {
				return
			}
		}
	}
}

func (s *Server) record(r *Req, bad bool) {
	s.mu.Lock()
	r.Index = s.nextIdx
	s.nextIdx++
	s.logLocked(r)
	s.mu.Unlock()
}

func (s *Server) logLocked(r *Req) {
	if r.Bad != "" {
		s.bad = append(s.bad, fmt.Sprintf("conn %d seq %d opcode %#x key %q: %s", r.Conn, r.Seq, r.Opcode, r.Key, r.Bad))
	}
	if s.logOn {
		s.log = append(s.log, *r)
	}
}

func (s *Server) liveEntry(key string, now int64) *Entry {
	e, ok := s.store[key]
	if !ok {
		return nil
	}
	if !e.LiveAt(now) {
		delete(s.store, key)
		return nil
	}
	return e
}

func flagsExtras(f uint32) []byte {
	b := make([]byte, 4)
	binary.BigEndian.PutUint32(b, f)
	return b
}

// process must be called with the lock held.
func (s *Server) process(r *Req, value []byte) reply {
	now := s.Now()
	quiet := false
	op := r.Opcode
	switch op {
	case OpSetQ:
		op, quiet = OpSet, true
	case OpAddQ:
		op, quiet = OpAdd, true
	case OpReplaceQ:
		op, quiet = OpReplace, true
	case OpGetQ:
		op, quiet = OpGet, true
	case OpGatQ:
		op, quiet = OpGat, true
	case OpGetEQ:
		op, quiet = OpGetE, true
	}
	e := s.liveEntry(r.Key, now)
	switch op {
	case OpGet, OpGetE, OpGat:
		if e == nil {
			if quiet {
				return reply{silent: true}
			}
			return errReply(StNotFound)
		}
		r.Hit = true
		rep := reply{extras: flagsExtras(e.Flags), value: append([]byte(nil), e.Value...)}
		if op == OpGetE {
			var rem uint32
			if e.Deadline != 0 {
				d := e.Deadline - now
				if d < 1 {
					d = 1
				}
				rem = uint32(d)
			}
			ex := make([]byte, 8)
			binary.BigEndian.PutUint32(ex[0:4], e.Flags)
			binary.BigEndian.PutUint32(ex[4:8], rem)
			rep.extras = ex
		}
		if op == OpGat {
			e.RawExp, e.SetAt, e.Deadline = r.Exptime, now, deadline(r.Exptime, now)
		}
		return rep
	case OpSet, OpAdd, OpReplace:
		if op == OpAdd && e != nil {
			return errReply(StExists)
		}
		if op == OpReplace && e == nil {
			return errReply(StNotFound)
		}
		s.store[r.Key] = &Entry{
			Value: append([]byte(nil), value...), Flags: r.Flags,
			RawExp: r.Exptime, SetAt: now, Deadline: deadline(r.Exptime, now),
		}
		return reply{silent: quiet}
	case OpAppend, OpPrepend:
		if e == nil {
			return errReply(StNotStored)
		}
		if op == OpAppend {
			e.Value = append(append([]byte(nil), e.Value...), value...)
		} else {
			e.Value = append(append([]byte(nil), value...), e.Value...)
		}
		return reply{}
	case OpDelete:
		if e == nil {
			return errReply(StNotFound)
		}
		delete(s.store, r.Key)
		return reply{}
	case OpTouch:
		if e == nil {
			return errReply(StNotFound)
		}
		e.RawExp, e.SetAt, e.Deadline = r.Exptime, now, deadline(r.Exptime, now)
		if s.TouchExtras {
			return reply{extras: flagsExtras(e.Flags)}
		}
		return reply{}
	case OpNoop, OpQuit:
		return reply{}
	case OpVersion:
		return reply{value: []byte("1.5.0-fake")}
	}
	return errReply(StUnknown)
}
