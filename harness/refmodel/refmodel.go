// Package refmodel is the reference "single memcached-style map" used as the
// oracle: one map key -> (value, flags, deadline) with memcached semantics.
package refmodel

import (
	"sort"

	"verifharness/wire"
)

const MaxRelative = 60 * 60 * 24 * 30

type Item struct {
	Value    []byte
	Flags    uint32
	Deadline int64 // 0 = never; else absolute unix seconds
}

type Model struct {
	M map[string]*Item
}

func New() *Model { return &Model{M: map[string]*Item{}} }

func (m *Model) Clone() *Model {
	c := New()
	for k, v := range m.M {
		it := *v
		it.Value = append([]byte(nil), v.Value...)
		c.M[k] = &it
	}
	return c
}

func Deadline(ttl uint32, now int64) int64 {
	if ttl == 0 {
		return 0
	}
	if ttl <= MaxRelative {
		return now + int64(ttl)
	}
	return int64(ttl)
}

// Live reports whether k is present and not expired at now.
func (m *Model) Live(k string, now int64) *Item {
	it, ok := m.M[k]
	if !ok {
		return nil
	}
	if it.Deadline != 0 && it.Deadline <= now {
		return nil
	}
	return it
}

// LiveKeys returns the sorted live keys.
func (m *Model) LiveKeys(now int64) []string {
	var ks []string
	for k := range m.M {
		if m.Live(k, now) != nil {
			ks = append(ks, k)
		}
	}
	sort.Strings(ks)
	return ks
}

type Class int

const (
	OK     Class = iota
	Fail         // not stored / not found / exists: the conditional command failed
	Error        // any other error reply
	Closed       // connection closed instead of a reply
)

func (c Class) String() string { return [...]string{"ok", "fail", "error", "closed"}[c] }

type Hit struct {
	Key   string
	Value []byte
	Flags uint32
}

// Expect is what the model says a command returns.
type Expect struct {
	Class Class
	// For Get/Gat/GetE: per requested key (in request order) hit or miss.
	Hits []*Hit // nil entry = miss
}

// Apply executes c on the model at time now and returns the expected outcome.
func (m *Model) Apply(c wire.Cmd, now int64) Expect {
	switch c.Kind {
	case wire.Set, wire.Add, wire.Replace:
		it := m.Live(c.Key, now)
		if c.Kind == wire.Add && it != nil {
			return Expect{Class: Fail}
		}
		if c.Kind == wire.Replace && it == nil {
			return Expect{Class: Fail}
		}
		m.M[c.Key] = &Item{Value: append([]byte(nil), c.Value...), Flags: c.Flags, Deadline: Deadline(c.Exptime, now)}
		return Expect{Class: OK}
	case wire.Append, wire.Prepend:
		it := m.Live(c.Key, now)
		if it == nil {
			return Expect{Class: Fail}
		}
		if c.Kind == wire.Append {
			it.Value = append(append([]byte(nil), it.Value...), c.Value...)
		} else {
			it.Value = append(append([]byte(nil), c.Value...), it.Value...)
		}
		return Expect{Class: OK}
	case wire.Delete:
		if m.Live(c.Key, now) == nil {
			delete(m.M, c.Key)
			return Expect{Class: Fail}
		}
		delete(m.M, c.Key)
		return Expect{Class: OK}
	case wire.Touch:
		it := m.Live(c.Key, now)
		if it == nil {
			return Expect{Class: Fail}
		}
		it.Deadline = Deadline(c.Exptime, now)
		return Expect{Class: OK}
	case wire.Get, wire.GetE:
		e := Expect{Class: OK}
		for _, k := range c.Keys {
			if it := m.Live(k, now); it != nil {
				e.Hits = append(e.Hits, &Hit{Key: k, Value: append([]byte(nil), it.Value...), Flags: it.Flags})
			} else {
				e.Hits = append(e.Hits, nil)
			}
		}
		return e
	case wire.Gat:
		it := m.Live(c.Key, now)
		if it == nil {
			return Expect{Class: OK, Hits: []*Hit{nil}}
		}
		h := &Hit{Key: c.Key, Value: append([]byte(nil), it.Value...), Flags: it.Flags}
		it.Deadline = Deadline(c.Exptime, now)
		return Expect{Class: OK, Hits: []*Hit{h}}
	case wire.Noop, wire.Version, wire.Stat, wire.Quit:
		return Expect{Class: OK}
	case wire.UnknownCmd:
		return Expect{Class: Error}
	}
	panic("refmodel: unsupported kind " + c.Kind.String())
}
