// Package wire is an independent client-side implementation of the subset of
// the memcached text and binary protocols that rend serves: request encoders
// and strict reply decoders, written from the protocol documents and not from
// /repo/client or /repo/protocol.
package wire

import (
	"bufio"
	"bytes"
	"encoding/binary"
	"errors"
	"fmt"
	"io"
	"strconv"
	"strings"
)

type Kind int

const (
	Set Kind = iota
	Add
	Replace
	Append
	Prepend
	Delete
	Touch
	Get  // one or more keys; binary: GETQ.. closed by GET or NOOP, or single GET
	Gat  // binary only
	GetE // binary only (rend extension)
	Noop
	Version
	Stat
	Quit
	UnknownCmd
	RawBytes // send Raw as is
)

var kindNames = [...]string{"set", "add", "replace", "append", "prepend", "delete", "touch", "get", "gat", "gete", "noop", "version", "stats", "quit", "unknown", "raw"}

func (k Kind) String() string { return kindNames[k] }

func (k Kind) MarshalText() ([]byte, error) { return []byte(k.String()), nil }
func (k *Kind) UnmarshalText(b []byte) error {
	for i, n := range kindNames {
		if n == string(b) {
			*k = Kind(i)
			return nil
		}
	}
	return fmt.Errorf("unknown kind %q", b)
}

// Cmd is one client command.
type Cmd struct {
	Kind    Kind     `json:"kind"`
	Key     string   `json:"key,omitempty"`
	Keys    []string `json:"keys,omitempty"` // Get/GetE
	Value   []byte   `json:"value,omitempty"`
	Flags   uint32   `json:"flags,omitempty"`
	Exptime uint32   `json:"exptime,omitempty"`
	Opaque  uint32   `json:"opaque,omitempty"`  // binary: opaque of the (first) request; further keys use Opaque+i
	Quiet   bool     `json:"quiet,omitempty"`   // binary set-family: quiet opcode.  Get: all keys but the terminator are GETQ
	NoopEnd bool     `json:"noopEnd,omitempty"` // binary multi-get: all keys GETQ, closed by NOOP (opaque = Opaque+len(Keys))
	Raw     []byte   `json:"raw,omitempty"`
	Port    int      `json:"port,omitempty"` // 0 main, 1 batch
}

func (c Cmd) String() string {
	if c.Kind == RawBytes {
		return fmt.Sprintf("raw %q", c.Raw)
	}
	v := ""
	if c.Value != nil {
		if len(c.Value) > 24 {
			v = fmt.Sprintf(" v[%d]=%q…", len(c.Value), c.Value[:24])
		} else {
			v = fmt.Sprintf(" v=%q", c.Value)
		}
	}
	k := c.Key
	if len(c.Keys) > 0 {
		k = strings.Join(c.Keys, ",")
	}
	if len(k) > 40 {
		k = k[:40] + "…"
	}
	s := fmt.Sprintf("%s %q%s f=%d ttl=%d", c.Kind, k, v, c.Flags, c.Exptime)
	if c.Quiet {
		s += " quiet"
	}
	if c.NoopEnd {
		s += " noopend"
	}
	if c.Port != 0 {
		s += " @batch"
	}
	return s
}

// ---------- binary ----------

const (
	opGet      = 0x00
	opSet      = 0x01
	opAdd      = 0x02
	opReplace  = 0x03
	opDelete   = 0x04
	opQuit     = 0x07
	opQuitQ    = 0x17
	opGetQ     = 0x09
	opNoop     = 0x0a
	opVersion  = 0x0b
	opAppend   = 0x0e
	opPrepend  = 0x0f
	opStat     = 0x10
	opSetQ     = 0x11
	opAddQ     = 0x12
	opReplaceQ = 0x13
	opAppendQ  = 0x19
	opPrependQ = 0x1a
	opTouch    = 0x1c
	opGat      = 0x1d
	opGetE     = 0x40
	opGetEQ    = 0x41
)

func binFrame(opcode byte, extras []byte, key string, value []byte, opaque uint32) []byte {
	total := len(extras) + len(key) + len(value)
	b := make([]byte, 24, 24+total)
	b[0] = 0x80
	b[1] = opcode
	binary.BigEndian.PutUint16(b[2:4], uint16(len(key)))
	b[4] = byte(len(extras))
	binary.BigEndian.PutUint32(b[8:12], uint32(total))
	binary.BigEndian.PutUint32(b[12:16], opaque)
	b = append(b, extras...)
	b = append(b, key...)
	b = append(b, value...)
	return b
}

func u32(v uint32) []byte {
	b := make([]byte, 4)
	binary.BigEndian.PutUint32(b, v)
	return b
}

// EncodeBinary returns the bytes of c in the binary protocol.
func EncodeBinary(c Cmd) []byte {
	switch c.Kind {
	case Set, Add, Replace:
		op := map[Kind]byte{Set: opSet, Add: opAdd, Replace: opReplace}[c.Kind]
		if c.Quiet {
			op = map[Kind]byte{Set: opSetQ, Add: opAddQ, Replace: opReplaceQ}[c.Kind]
		}
		return binFrame(op, append(u32(c.Flags), u32(c.Exptime)...), c.Key, c.Value, c.Opaque)
	case Append, Prepend:
		op := map[Kind]byte{Append: opAppend, Prepend: opPrepend}[c.Kind]
		if c.Quiet {
			op = map[Kind]byte{Append: opAppendQ, Prepend: opPrependQ}[c.Kind]
		}
		return binFrame(op, nil, c.Key, c.Value, c.Opaque)
	case Delete:
		return binFrame(opDelete, nil, c.Key, nil, c.Opaque)
	case Touch:
		return binFrame(opTouch, u32(c.Exptime), c.Key, nil, c.Opaque)
	case Gat:
		return binFrame(opGat, u32(c.Exptime), c.Key, nil, c.Opaque)
	case Get, GetE:
		q, nq := byte(opGetQ), byte(opGet)
		if c.Kind == GetE {
			q, nq = opGetEQ, opGetE
		}
		keys := c.Keys
		var out []byte
		for i, k := range keys {
			op := q
			if i == len(keys)-1 && !c.NoopEnd {
				op = nq
			}
			out = append(out, binFrame(op, nil, k, nil, c.Opaque+uint32(i))...)
		}
		if c.NoopEnd {
			out = append(out, binFrame(opNoop, nil, "", nil, c.Opaque+uint32(len(keys)))...)
		}
		return out
	case Noop:
		return binFrame(opNoop, nil, "", nil, c.Opaque)
	case Version:
		return binFrame(opVersion, nil, "", nil, c.Opaque)
	case Stat:
		return binFrame(opStat, nil, "", nil, c.Opaque)
	case Quit:
		if c.Quiet {
			return binFrame(opQuitQ, nil, "", nil, c.Opaque)
		}
		return binFrame(opQuit, nil, "", nil, c.Opaque)
	case UnknownCmd:
		return binFrame(0x05, nil, c.Key, nil, c.Opaque) // increment: not supported by rend
	case RawBytes:
		return c.Raw
	}
	panic("EncodeBinary: bad kind")
}

// BinReply is one decoded binary response frame.
type BinReply struct {
	Opcode byte
	Status uint16
	Opaque uint32
	Extras []byte
	Key    []byte
	Value  []byte
}

func (r BinReply) Flags() uint32 {
	if len(r.Extras) >= 4 {
		return binary.BigEndian.Uint32(r.Extras[:4])
	}
	return 0
}

func (r BinReply) String() string {
	v := r.Value
	suffix := ""
	if len(v) > 24 {
		v, suffix = v[:24], "…"
	}
	return fmt.Sprintf("{op=%#x st=%#x opq=%d ext=%x key=%q val[%d]=%q%s}", r.Opcode, r.Status, r.Opaque, r.Extras, r.Key, len(r.Value), v, suffix)
}

var ErrFrame = errors.New("malformed reply frame")

// ReadBinReply reads and strictly validates one response frame.
func ReadBinReply(r *bufio.Reader) (BinReply, error) {
	var h [24]byte
	if _, err := io.ReadFull(r, h[:]); err != nil {
		return BinReply{}, err
	}
	if h[0] != 0x81 {
		return BinReply{}, fmt.Errorf("%w: magic %#x (header %x)", ErrFrame, h[0], h[:])
	}
	rep := BinReply{Opcode: h[1], Status: binary.BigEndian.Uint16(h[6:8]), Opaque: binary.BigEndian.Uint32(h[12:16])}
	kl := int(binary.BigEndian.Uint16(h[2:4]))
	el := int(h[4])
	total := int(binary.BigEndian.Uint32(h[8:12]))
	if h[5] != 0 {
		return rep, fmt.Errorf("%w: datatype %d", ErrFrame, h[5])
	}
	if total < kl+el {
		return rep, fmt.Errorf("%w: total %d < key %d + extras %d", ErrFrame, total, kl, el)
	}
	if total > 64<<20 {
		return rep, fmt.Errorf("%w: absurd total %d", ErrFrame, total)
	}
	for _, b := range h[16:24] {
		if b != 0 {
			return rep, fmt.Errorf("%w: non-zero CAS", ErrFrame)
		}
	}
	body := make([]byte, total)
	if _, err := io.ReadFull(r, body); err != nil {
		if err == io.EOF {
			err = io.ErrUnexpectedEOF
		}
		return rep, fmt.Errorf("%w: body of %d bytes: %v", ErrFrame, total, err)
	}
	rep.Extras = body[:el]
	rep.Key = body[el : el+kl]
	rep.Value = body[el+kl:]
	return rep, nil
}

// ---------- text ----------

// EncodeText returns the bytes of c in the text protocol.
func EncodeText(c Cmd) []byte {
	switch c.Kind {
	case Set, Add, Replace, Append, Prepend:
		var b bytes.Buffer
		fmt.Fprintf(&b, "%s %s %d %d %d\r\n", c.Kind, c.Key, c.Flags, c.Exptime, len(c.Value))
		b.Write(c.Value)
		b.WriteString("\r\n")
		return b.Bytes()
	case Delete:
		return []byte("delete " + c.Key + "\r\n")
	case Touch:
		return []byte(fmt.Sprintf("touch %s %d\r\n", c.Key, c.Exptime))
	case Get:
		return []byte("get " + strings.Join(c.Keys, " ") + "\r\n")
	case Noop:
		return []byte("noop\r\n")
	case Version:
		return []byte("version\r\n")
	case Stat:
		return []byte("stats\r\n")
	case Quit:
		return []byte("quit\r\n")
	case UnknownCmd:
		return []byte("frobnicate " + c.Key + "\r\n")
	case RawBytes:
		return c.Raw
	}
	panic("EncodeText: kind not available in text: " + c.Kind.String())
}

// TextReply is one decoded text reply unit: either a status line or a VALUE block.
type TextReply struct {
	Line  string // the line without CRLF ("VALUE k f n" for value blocks)
	IsVal bool
	Key   string
	Flags uint32
	Value []byte
}

func (r TextReply) String() string {
	if r.IsVal {
		v, suffix := r.Value, ""
		if len(v) > 24 {
			v, suffix = v[:24], "…"
		}
		return fmt.Sprintf("{VALUE %q f=%d val[%d]=%q%s}", r.Key, r.Flags, len(r.Value), v, suffix)
	}
	return fmt.Sprintf("{%q}", r.Line)
}

// ReadTextReply reads one reply unit.  Lines must end in CRLF, except that a
// bare LF is tolerated when lenientLF is set (rend's text "stats" reply).
func ReadTextReply(r *bufio.Reader, lenientLF bool) (TextReply, error) {
	line, err := r.ReadString('\n')
	if err != nil {
		if err == io.EOF && line != "" {
			return TextReply{}, fmt.Errorf("%w: partial line %q", ErrFrame, line)
		}
		return TextReply{}, err
	}
	if !strings.HasSuffix(line, "\r\n") {
		if !lenientLF {
			return TextReply{}, fmt.Errorf("%w: line %q not CRLF-terminated", ErrFrame, line)
		}
		line = strings.TrimSuffix(line, "\n")
	} else {
		line = strings.TrimSuffix(line, "\r\n")
	}
	if !strings.HasPrefix(line, "VALUE ") {
		return TextReply{Line: line}, nil
	}
	parts := strings.Split(line, " ")
	if len(parts) != 4 {
		return TextReply{}, fmt.Errorf("%w: VALUE line %q", ErrFrame, line)
	}
	fl, err1 := strconv.ParseUint(parts[2], 10, 32)
	n, err2 := strconv.ParseUint(parts[3], 10, 31)
	if err1 != nil || err2 != nil {
		return TextReply{}, fmt.Errorf("%w: VALUE line %q", ErrFrame, line)
	}
	buf := make([]byte, n+2)
	if _, err := io.ReadFull(r, buf); err != nil {
		return TextReply{}, fmt.Errorf("%w: value block of %d: %v", ErrFrame, n, err)
	}
	if buf[n] != '\r' || buf[n+1] != '\n' {
		return TextReply{}, fmt.Errorf("%w: value block of %d not followed by CRLF (got %q)", ErrFrame, n, buf[n:])
	}
	return TextReply{Line: line, IsVal: true, Key: parts[1], Flags: uint32(fl), Value: buf[:n]}, nil
}
