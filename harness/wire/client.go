package wire

import (
	"bufio"
	"errors"
	"fmt"
	"io"
	"net"
	"strings"
	"time"
)

// Class of an outcome as seen by the client.
type Class int

const (
	OK     Class = iota
	Fail         // NOT_STORED / NOT_FOUND / key exists
	Error        // any other error reply
	Closed       // EOF instead of a (complete) reply
)

func (c Class) String() string { return [...]string{"ok", "fail", "error", "closed"}[c] }

type Hit struct {
	Key    string
	Value  []byte
	Flags  uint32
	Opaque uint32
	Exp    uint32 // gete only
}

// Outcome is what a client observed for one command.
type Outcome struct {
	Class      Class
	Hits       []Hit    // get family: values received, in arrival order
	Misses     []uint32 // binary: opaques of explicit not-found replies
	Status     uint16   // binary: status of the deciding reply
	Line       string   // text: the deciding line
	Terminated bool     // get family: terminator seen (END / GET reply / NOOP reply)
	Trace      []string // every reply unit, stringified, for diagnostics
	Problems   []string // protocol violations noticed while reading (bad frame, wrong opaque, extra reply)
}

func (o Outcome) String() string {
	return fmt.Sprintf("%s hits=%d misses=%d st=%#x line=%q problems=%v trace=%v", o.Class, len(o.Hits), len(o.Misses), o.Status, o.Line, o.Problems, o.Trace)
}

// Client is a protocol-aware client connection.
type Client struct {
	C       net.Conn
	R       *bufio.Reader
	Binary  bool
	Timeout time.Duration
	nextOpq uint32
}

func NewClient(c net.Conn, binary bool) *Client {
	return &Client{C: c, R: bufio.NewReaderSize(c, 1<<16), Binary: binary, Timeout: 120 * time.Second, nextOpq: 0x1000}
}

func (cl *Client) Close() { cl.C.Close() }

// ErrTimeout is returned when the server did not answer within cl.Timeout.
var ErrTimeout = errors.New("client: timed out waiting for a reply")

func (cl *Client) arm() {
	if cl.Timeout > 0 {
		cl.C.SetReadDeadline(time.Now().Add(cl.Timeout))
	}
}

func isTimeout(err error) bool {
	var ne net.Error
	return errors.As(err, &ne) && ne.Timeout()
}

func binClass(st uint16) Class {
	switch st {
	case 0:
		return OK
	case 1, 2, 5:
		return Fail
	}
	return Error
}

// Encode returns the wire bytes for c in this client's protocol.
func (cl *Client) Encode(c Cmd) []byte {
	if cl.Binary {
		return EncodeBinary(c)
	}
	return EncodeText(c)
}

// Do sends one command and reads its complete reply.  For binary get batches
// and quiet stores a NOOP sentinel is appended so that the end of the reply is
// unambiguous whatever order rend writes the batch's replies in.
// The returned error is non-nil only for harness-level trouble (timeout).
func (cl *Client) Do(c Cmd) (Outcome, error) {
	if cl.Binary {
		return cl.doBinary(c)
	}
	return cl.doText(c)
}

func (cl *Client) doBinary(c Cmd) (Outcome, error) {
	var o Outcome
	if c.Opaque == 0 && c.Kind != RawBytes {
		cl.nextOpq += 64
		c.Opaque = cl.nextOpq
	}
	buf := EncodeBinary(c)
	sentinel := false
	var sentOpq uint32
	switch {
	case c.Kind == Get || c.Kind == GetE:
		sentinel = true
	case c.Quiet:
		sentinel = true
	}
	if sentinel {
		sentOpq = c.Opaque + 0x20000000 + uint32(len(c.Keys))
		buf = append(buf, binFrame(opNoop, nil, "", nil, sentOpq)...)
	}
	if _, err := cl.C.Write(buf); err != nil {
		o.Class = Closed
		o.Trace = append(o.Trace, "write: "+err.Error())
		return o, nil
	}
	cl.arm()
	read := func() (BinReply, bool, error) {
		rep, err := ReadBinReply(cl.R)
		if err != nil {
			if isTimeout(err) {
				return rep, false, ErrTimeout
			}
			if errors.Is(err, ErrFrame) {
				o.Problems = append(o.Problems, err.Error())
			}
			o.Class = Closed
			o.Trace = append(o.Trace, "read: "+err.Error())
			return rep, false, nil
		}
		o.Trace = append(o.Trace, rep.String())
		return rep, true, nil
	}
	if !sentinel {
		rep, ok, err := read()
		if err != nil || !ok {
			return o, err
		}
		if rep.Opaque != c.Opaque {
			o.Problems = append(o.Problems, fmt.Sprintf("reply opaque %d, request opaque %d", rep.Opaque, c.Opaque))
		}
		o.Status = rep.Status
		o.Class = binClass(rep.Status)
		switch c.Kind {
		case Gat:
			o.Terminated = true
			if rep.Status == 0 {
				if len(rep.Extras) != 4 {
					o.Problems = append(o.Problems, fmt.Sprintf("gat hit with %d bytes of extras", len(rep.Extras)))
				}
				o.Hits = append(o.Hits, Hit{Key: c.Key, Value: rep.Value, Flags: rep.Flags(), Opaque: rep.Opaque})
			} else if rep.Status == 1 {
				o.Class = OK
				o.Misses = append(o.Misses, rep.Opaque)
			}
		case Version:
			o.Line = string(rep.Value)
		case Stat:
			// a stat reply is a sequence of frames closed by an empty one
			for len(rep.Key) != 0 || len(rep.Value) != 0 {
				var ok bool
				rep, ok, err = read()
				if err != nil || !ok {
					return o, err
				}
				if rep.Opaque != c.Opaque {
					o.Problems = append(o.Problems, fmt.Sprintf("stat frame opaque %d, request opaque %d", rep.Opaque, c.Opaque))
				}
			}
		default:
			if rep.Status == 0 && (len(rep.Extras) != 0 || len(rep.Key) != 0 || len(rep.Value) != 0) {
				o.Problems = append(o.Problems, "success reply with a body: "+rep.String())
			}
		}
		return o, nil
	}
	// sentinel mode: collect until the sentinel's reply
	o.Class = OK
	n := uint32(len(c.Keys))
	for {
		rep, ok, err := read()
		if err != nil || !ok {
			return o, err
		}
		if rep.Opaque == sentOpq {
			if rep.Opcode != opNoop || rep.Status != 0 {
				o.Problems = append(o.Problems, "sentinel answered with "+rep.String())
			}
			break
		}
		switch c.Kind {
		case Get, GetE:
			idx := rep.Opaque - c.Opaque
			switch {
			case c.NoopEnd && idx == n && rep.Opcode == opNoop && rep.Status == 0:
				if o.Terminated {
					o.Problems = append(o.Problems, "second terminator")
				}
				o.Terminated = true
			case idx < n && rep.Status == 0:
				want := 4
				if c.Kind == GetE {
					want = 8
				}
				if len(rep.Extras) != want {
					o.Problems = append(o.Problems, fmt.Sprintf("get hit with %d bytes of extras", len(rep.Extras)))
				}
				h := Hit{Key: c.Keys[idx], Value: rep.Value, Flags: rep.Flags(), Opaque: rep.Opaque}
				if c.Kind == GetE && len(rep.Extras) == 8 {
					h.Exp = uint32(rep.Extras[4])<<24 | uint32(rep.Extras[5])<<16 | uint32(rep.Extras[6])<<8 | uint32(rep.Extras[7])
				}
				o.Hits = append(o.Hits, h)
				if !c.NoopEnd && idx == n-1 {
					o.Terminated = true
				}
			case idx < n && rep.Status == 1:
				o.Misses = append(o.Misses, rep.Opaque)
				if !c.NoopEnd && idx == n-1 {
					o.Terminated = true
				}
			case idx < n || rep.Opaque == 0:
				// an error reply for the batch (rend answers get errors with opaque 0)
				o.Class = binClass(rep.Status)
				if o.Class == OK {
					o.Class = Error
				}
				o.Status = rep.Status
			default:
				o.Problems = append(o.Problems, "unattributable reply "+rep.String())
			}
		default: // quiet store
			if rep.Opaque != c.Opaque {
				o.Problems = append(o.Problems, "unattributable reply "+rep.String())
				continue
			}
			if rep.Status == 0 {
				o.Problems = append(o.Problems, "quiet command answered on success: "+rep.String())
			}
			o.Status = rep.Status
			o.Class = binClass(rep.Status)
		}
	}
	return o, nil
}

func (cl *Client) doText(c Cmd) (Outcome, error) {
	if _, err := cl.C.Write(EncodeText(c)); err != nil {
		var o Outcome
		o.Class = Closed
		o.Trace = append(o.Trace, "write: "+err.Error())
		return o, nil
	}
	return cl.RecvText(c)
}

// RecvText reads the complete text-protocol reply to c (which must already
// have been sent).
func (cl *Client) RecvText(c Cmd) (Outcome, error) {
	var o Outcome
	cl.arm()
	read := func(lenient bool) (TextReply, bool, error) {
		rep, err := ReadTextReply(cl.R, lenient)
		if err != nil {
			if isTimeout(err) {
				return rep, false, ErrTimeout
			}
			if errors.Is(err, ErrFrame) {
				o.Problems = append(o.Problems, err.Error())
			}
			o.Class = Closed
			o.Trace = append(o.Trace, "read: "+err.Error())
			return rep, false, nil
		}
		o.Trace = append(o.Trace, rep.String())
		return rep, true, nil
	}
	classify := func(line string, okWord string) {
		o.Line = line
		switch {
		case line == okWord:
			o.Class = OK
		case line == "NOT_STORED" || line == "NOT_FOUND" || line == "EXISTS":
			o.Class = Fail
		default:
			o.Class = Error
			if !(strings.HasPrefix(line, "ERROR") || strings.HasPrefix(line, "CLIENT_ERROR") || strings.HasPrefix(line, "SERVER_ERROR")) {
				o.Problems = append(o.Problems, fmt.Sprintf("unexpected line %q (wanted %q or an error)", line, okWord))
			}
		}
	}
	switch c.Kind {
	case Get:
		for {
			rep, ok, err := read(false)
			if err != nil || !ok {
				return o, err
			}
			if rep.IsVal {
				o.Hits = append(o.Hits, Hit{Key: rep.Key, Value: rep.Value, Flags: rep.Flags})
				continue
			}
			if rep.Line == "END" {
				o.Terminated = true
				o.Class = OK
				return o, nil
			}
			classify(rep.Line, "END")
			return o, nil
		}
	case Stat:
		for {
			rep, ok, err := read(true)
			if err != nil || !ok {
				return o, err
			}
			if rep.Line == "END" {
				o.Class = OK
				return o, nil
			}
			if !strings.HasPrefix(rep.Line, "STAT ") {
				classify(rep.Line, "END")
				return o, nil
			}
		}
	}
	rep, ok, err := read(false)
	if err != nil || !ok {
		return o, err
	}
	if rep.IsVal {
		o.Problems = append(o.Problems, "VALUE block in reply to "+c.Kind.String())
		o.Class = Error
		return o, nil
	}
	switch c.Kind {
	case Set, Add, Replace, Append, Prepend:
		classify(rep.Line, "STORED")
	case Delete:
		classify(rep.Line, "DELETED")
	case Touch:
		classify(rep.Line, "TOUCHED")
	case Version:
		o.Line = rep.Line
		if strings.HasPrefix(rep.Line, "VERSION ") {
			o.Class = OK
		} else {
			classify(rep.Line, "VERSION")
		}
	case Noop:
		o.Line = rep.Line
		o.Class = OK
	case Quit:
		o.Line = rep.Line
		o.Class = OK
	default:
		classify(rep.Line, "\x00never")
	}
	return o, nil
}

// ExpectEOF reads until EOF and returns whatever was still in the stream.
func (cl *Client) Drain(max time.Duration) ([]byte, error) {
	cl.C.SetReadDeadline(time.Now().Add(max))
	b, err := io.ReadAll(cl.R)
	if isTimeout(err) {
		return b, ErrTimeout
	}
	return b, nil
}

// RecvBinUntil reads binary reply frames until one carries the opaque
// sentinel (included in the result), or until EOF / a malformed frame.
func (cl *Client) RecvBinUntil(sentinel uint32) (frames []BinReply, closed bool, problem string, err error) {
	cl.arm()
	for {
		rep, e := ReadBinReply(cl.R)
		if e != nil {
			if isTimeout(e) {
				return frames, false, "", ErrTimeout
			}
			if errors.Is(e, ErrFrame) {
				return frames, true, e.Error(), nil
			}
			return frames, true, "", nil
		}
		frames = append(frames, rep)
		if rep.Opaque == sentinel {
			return frames, false, "", nil
		}
	}
}
