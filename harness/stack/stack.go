// Package stack builds a complete rend server in-process, wired exactly like
// app/memproxy.go (ListenAndServe, [binprot, textprot], server.Default, an
// orchestrator constructor and two handler constructors), in front of fake
// memcached instances.
package stack

import (
	"fmt"
	"net"
	"os"
	"os/exec"
	"path/filepath"
	"strconv"
	"sync"
	"syscall"
	"time"

	"github.com/netflix/rend/handlers"
	"github.com/netflix/rend/handlers/inmem"
	"github.com/netflix/rend/handlers/memcached"
	"github.com/netflix/rend/handlers/memcached/batched"
	"github.com/netflix/rend/orcas"
	"github.com/netflix/rend/protocol"
	"github.com/netflix/rend/protocol/binprot"
	"github.com/netflix/rend/protocol/textprot"
	"github.com/netflix/rend/server"

	"verifharness/fakemc"
)

// Config names a deployment shape; see DESIGN.md Appendix C.
type Config struct {
	Shape string // l1only | l1l2 | l1l2+batch | backfill (cluster proxy, L1 = source, L2 = destination)
	Lock  string // nolock | lock1r | lockNr
	L1    string // std | chunked | batched | inmem | cluster (l1only: two names of the one L1 fake as nodes)
	L2    string // - | std | batched
	Conc  uint8  // lock concurrency (log2 of stripes)
	TCP   bool   // main port on loopback TCP instead of a unix socket (as memproxy listens)
}

func (c Config) String() string {
	tcp := ""
	if c.TCP {
		tcp = "/tcp"
	}
	return fmt.Sprintf("%s/%s/%s+%s/c%d%s", c.Shape, c.Lock, c.L1, c.L2, c.Conc, tcp)
}

type Stack struct {
	// MainAddr/BatchAddr: when set, Dial connects there over TCP (an external
	// memproxy process) instead of the in-process unix sockets.
	MainAddr, BatchAddr string
	Proc                *exec.Cmd

	Cfg       Config
	L1, L2    *fakemc.Server
	L1Sock    string
	L2Sock    string
	MainSock  string
	BatchSock string
	LockSlot  uint32
}

var (
	mu      sync.Mutex
	stacks  = map[Config]*Stack{}
	baseDir string
	seq     int
)

// Dir returns the per-process scratch directory for sockets.
func Dir() string {
	mu.Lock()
	defer mu.Unlock()
	return dirLocked()
}

func dirLocked() string {
	if baseDir == "" {
		d, err := os.MkdirTemp("", "vh")
		if err != nil {
			panic(err)
		}
		baseDir = d
	}
	return baseDir
}

// Cleanup removes the scratch directory (call from TestMain).
func Cleanup() {
	mu.Lock()
	defer mu.Unlock()
	if baseDir != "" {
		os.RemoveAll(baseDir)
	}
}

// BatchOpts are the options used for batched handlers built by Get.
var BatchOpts = batched.Opts{BatchSize: 4, BatchDelayMicros: 100}

// NewFake starts a fake memcached on a fresh unix socket.
func NewFake(name string) (*fakemc.Server, string) {
	mu.Lock()
	seq++
	path := filepath.Join(dirLocked(), fmt.Sprintf("%s%d.sock", name, seq))
	mu.Unlock()
	f := fakemc.New()
	if err := f.ListenUnix(path); err != nil {
		panic(err)
	}
	return f, path
}

func handlerConst(kind, sock string) handlers.HandlerConst {
	switch kind {
	case "std":
		return memcached.Regular(sock)
	case "chunked":
		return memcached.Chunked(sock)
	case "batched":
		return memcached.Batched(sock, BatchOpts)
	case "inmem":
		return inmem.New
	case "-":
		return handlers.NilHandler
	}
	panic("bad handler kind " + kind)
}

// Get returns the (process-wide, cached) stack for cfg, building it on first use.
func Get(cfg Config) *Stack {
	mu.Lock()
	if s, ok := stacks[cfg]; ok {
		mu.Unlock()
		return s
	}
	mu.Unlock()
	s := build(cfg)
	mu.Lock()
	defer mu.Unlock()
	if prev, ok := stacks[cfg]; ok {
		return prev
	}
	stacks[cfg] = s
	return s
}

func build(cfg Config) *Stack {
	s := &Stack{Cfg: cfg}
	if cfg.L1 != "inmem" {
		s.L1, s.L1Sock = NewFake("l1_")
	}
	if cfg.L2 != "-" {
		s.L2, s.L2Sock = NewFake("l2_")
	}
	mu.Lock()
	seq++
	s.MainSock = filepath.Join(dirLocked(), fmt.Sprintf("main%d.sock", seq))
	s.BatchSock = filepath.Join(dirLocked(), fmt.Sprintf("batch%d.sock", seq))
	mu.Unlock()

	protocols := []protocol.Components{binprot.Components, textprot.Components}
	var h1 handlers.HandlerConst
	if cfg.L1 == "cluster" {
		// the cluster handler dials TCP; its two "nodes" are two names of the one
		// L1 fake, so that the fake sees every backend connection of a client
		addr, err := s.L1.ListenTCP("127.0.0.1:0")
		if err != nil {
			panic(err)
		}
		_, port, _ := net.SplitHostPort(addr)
		h1 = memcached.Cluster([]string{addr, "localhost:" + port}, "verif")
	} else {
		h1 = handlerConst(cfg.L1, s.L1Sock)
	}
	var h2 handlers.HandlerConst
	if cfg.L2 == "cluster" {
		addr, err := s.L2.ListenTCP("127.0.0.1:0")
		if err != nil {
			panic(err)
		}
		_, port, _ := net.SplitHostPort(addr)
		h2 = memcached.Cluster([]string{addr, "localhost:" + port}, "verif-dest")
	} else {
		h2 = handlerConst(cfg.L2, s.L2Sock)
	}

	var o orcas.OrcaConst
	switch cfg.Shape {
	case "l1only":
		o = orcas.L1Only
	case "backfill":
		// the cluster proxy's second mode: gets answered with misses, hits of the
		// source cluster (h1) copied to the destination cluster (h2)
		o = orcas.Backfill
	case "l1l2", "l1l2+batch":
		o = orcas.L1L2
	default:
		panic("bad shape " + cfg.Shape)
	}
	switch cfg.Lock {
	case "nolock":
	case "lock1r":
		o, s.LockSlot = orcas.Locked(o, false, cfg.Conc)
	case "lockNr":
		o, s.LockSlot = orcas.Locked(o, true, cfg.Conc)
	default:
		panic("bad lock " + cfg.Lock)
	}
	if cfg.TCP {
		port := freePort()
		s.MainAddr = fmt.Sprintf("127.0.0.1:%d", port)
		go server.ListenAndServe(server.TCPListener(port), protocols, server.Default, o, h1, h2)
		for i := 0; i < 2000; i++ {
			if c, err := net.DialTimeout("tcp", s.MainAddr, time.Second); err == nil {
				c.Close()
				break
			}
			time.Sleep(time.Millisecond)
		}
	} else {
		go server.ListenAndServe(server.UnixListener(s.MainSock), protocols, server.Default, o, h1, h2)
		waitSock(s.MainSock)
	}
	if cfg.Shape == "l1l2+batch" {
		var ob orcas.OrcaConst = orcas.L1L2Batch
		if cfg.Lock != "nolock" {
			ob = orcas.LockedWithExisting(ob, s.LockSlot)
		}
		go server.ListenAndServe(server.UnixListener(s.BatchSock), protocols, server.Default, ob, h1, h2)
		waitSock(s.BatchSock)
	}
	return s
}

func waitSock(path string) {
	for i := 0; i < 2000; i++ {
		if _, err := os.Stat(path); err == nil {
			return
		}
		time.Sleep(time.Millisecond)
	}
	panic("server socket " + path + " did not appear")
}

// Dial opens a client connection to the main (0) or batch (1) port.
func (s *Stack) Dial(port int) net.Conn {
	p := s.MainSock
	if port == 1 {
		if s.Cfg.Shape != "l1l2+batch" {
			panic("no batch port in " + s.Cfg.String())
		}
		p = s.BatchSock
	}
	if s.MainAddr != "" {
		addr := s.MainAddr
		if port == 1 {
			addr = s.BatchAddr
		}
		c, err := net.DialTimeout("tcp", addr, 5*time.Second)
		if err != nil {
			panic(fmt.Sprintf("dial %s: %v", addr, err))
		}
		return c
	}
	var err error
	for i := 0; i < 50; i++ {
		var c net.Conn
		c, err = net.Dial("unix", p)
		if err == nil {
			return c
		}
		time.Sleep(2 * time.Millisecond)
	}
	panic(fmt.Sprintf("dial %s: %v", p, err))
}

// Reset empties both fakes (state, logs, fault plans).
func (s *Stack) Reset() {
	if s.L1 != nil {
		s.L1.Reset()
	}
	if s.L2 != nil {
		s.L2.Reset()
	}
}

// Auth returns the authoritative tier's fake (L2 when present, else L1).
func (s *Stack) Auth() *fakemc.Server {
	if s.L2 != nil {
		return s.L2
	}
	return s.L1
}

func freePort() int {
	l, err := net.Listen("tcp", "127.0.0.1:0")
	if err != nil {
		panic(err)
	}
	defer l.Close()
	return l.Addr().(*net.TCPAddr).Port
}

// External starts the real memproxy binary (built from app/memproxy.go) in
// front of fresh fakes, configured through its command line flags like a
// deployment would, and returns a Stack that dials its TCP ports.
// cfg.L2 must be "-" or "std" (memproxy always uses the std handler for L2).
func External(cfg Config, binary string) (*Stack, error) {
	s := &Stack{Cfg: cfg}
	s.L1, s.L1Sock = NewFake("xl1_")
	args := []string{"--l1-sock", s.L1Sock}
	switch cfg.L1 {
	case "chunked":
		args = append(args, "--chunked")
	case "batched":
		args = append(args, "--l1-batched", "--batch-size", "4", "--batch-delay", "100")
	}
	if cfg.L2 != "-" {
		s.L2, s.L2Sock = NewFake("xl2_")
		args = append(args, "--l2-enabled", "--l2-sock", s.L2Sock)
	}
	switch cfg.Lock {
	case "lock1r":
		args = append(args, "--locked", "--multi-reader=false", "--concurrency", strconv.Itoa(int(cfg.Conc)))
	case "lockNr":
		args = append(args, "--locked", "--multi-reader=true", "--concurrency", strconv.Itoa(int(cfg.Conc)))
	}
	mp, bp := freePort(), freePort()
	args = append(args, "-p", strconv.Itoa(mp), "-bp", strconv.Itoa(bp))
	s.MainAddr, s.BatchAddr = fmt.Sprintf("127.0.0.1:%d", mp), fmt.Sprintf("127.0.0.1:%d", bp)
	cmd := exec.Command(binary, args...)
	cmd.Stdout, cmd.Stderr = nil, nil
	if err := cmd.Start(); err != nil {
		return nil, err
	}
	s.Proc = cmd
	deadline := time.Now().Add(20 * time.Second)
	for {
		c, err := net.DialTimeout("tcp", s.MainAddr, time.Second)
		if err == nil {
			c.Close()
			break
		}
		if time.Now().After(deadline) {
			cmd.Process.Kill()
			return nil, fmt.Errorf("memproxy did not start listening on %s: %v", s.MainAddr, err)
		}
		time.Sleep(20 * time.Millisecond)
	}
	if cfg.Shape == "l1l2+batch" {
		for i := 0; i < 500; i++ {
			c, err := net.DialTimeout("tcp", s.BatchAddr, time.Second)
			if err == nil {
				c.Close()
				break
			}
			time.Sleep(20 * time.Millisecond)
		}
	}
	return s, nil
}

// Stop kills an external memproxy.
func (s *Stack) Stop() {
	if s.Proc != nil {
		s.Proc.Process.Kill()
		s.Proc.Wait()
	}
}

// Alive reports whether the external process is still running.
func (s *Stack) Alive() bool {
	if s.Proc == nil {
		return true
	}
	return s.Proc.ProcessState == nil && s.Proc.Process.Signal(syscall0()) == nil
}

func syscall0() os.Signal { return syscall.Signal(0) }
