// Package bufpipe provides an in-memory, unbounded-buffer duplex net.Conn pair
// and a net.Listener built on it.  Writes never block, so the two ends cannot
// deadlock on each other however much is pipelined.
package bufpipe

import (
	"errors"
	"io"
	"net"
	"sync"
	"time"
)

type half struct {
	mu     sync.Mutex
	cond   *sync.Cond
	buf    []byte
	closed bool // writer side closed: reader gets EOF after draining
	rdDead bool // reader side closed: writes fail
}

func newHalf() *half {
	h := &half{}
	h.cond = sync.NewCond(&h.mu)
	return h
}

type Conn struct {
	rd, wr *half
	name   string
	once   sync.Once
}

type addr string

func (a addr) Network() string { return "bufpipe" }
func (a addr) String() string  { return string(a) }

// Pair returns two connected ends.
func Pair() (*Conn, *Conn) {
	a, b := newHalf(), newHalf()
	return &Conn{rd: a, wr: b, name: "A"}, &Conn{rd: b, wr: a, name: "B"}
}

func (c *Conn) Read(p []byte) (int, error) {
	if len(p) == 0 {
		return 0, nil
	}
	h := c.rd
	h.mu.Lock()
	defer h.mu.Unlock()
	for len(h.buf) == 0 {
		if h.rdDead {
			return 0, io.ErrClosedPipe
		}
		if h.closed {
			return 0, io.EOF
		}
		h.cond.Wait()
	}
	n := copy(p, h.buf)
	h.buf = h.buf[n:]
	if len(h.buf) == 0 {
		h.buf = nil
	}
	return n, nil
}

func (c *Conn) Write(p []byte) (int, error) {
	h := c.wr
	h.mu.Lock()
	defer h.mu.Unlock()
	if h.closed {
		return 0, io.ErrClosedPipe
	}
	if h.rdDead {
		return 0, errors.New("bufpipe: broken pipe")
	}
	h.buf = append(h.buf, p...)
	h.cond.Broadcast()
	return len(p), nil
}

// Close closes both directions: the peer reads EOF after draining what was
// written, and the peer's writes fail.
func (c *Conn) Close() error {
	c.once.Do(func() {
		c.wr.mu.Lock()
		c.wr.closed = true
		c.wr.cond.Broadcast()
		c.wr.mu.Unlock()
		c.rd.mu.Lock()
		c.rd.rdDead = true
		c.rd.buf = nil
		c.rd.cond.Broadcast()
		c.rd.mu.Unlock()
	})
	return nil
}

func (c *Conn) LocalAddr() net.Addr                { return addr("bufpipe-" + c.name) }
func (c *Conn) RemoteAddr() net.Addr               { return addr("bufpipe-peer-" + c.name) }
func (c *Conn) SetDeadline(t time.Time) error      { return nil }
func (c *Conn) SetReadDeadline(t time.Time) error  { return nil }
func (c *Conn) SetWriteDeadline(t time.Time) error { return nil }

// Listener is a net.Listener whose Dial side is in-process.
type Listener struct {
	ch     chan net.Conn
	closed chan struct{}
	once   sync.Once
}

func Listen() *Listener {
	return &Listener{ch: make(chan net.Conn, 64), closed: make(chan struct{})}
}

func (l *Listener) Accept() (net.Conn, error) {
	select {
	case c := <-l.ch:
		return c, nil
	case <-l.closed:
		return nil, errors.New("bufpipe: listener closed")
	}
}

func (l *Listener) Close() error {
	l.once.Do(func() { close(l.closed) })
	return nil
}

func (l *Listener) Addr() net.Addr { return addr("bufpipe-listener") }

// Dial returns the client end of a fresh connection; the server end is queued
// for Accept.
func (l *Listener) Dial() (net.Conn, error) {
	a, b := Pair()
	select {
	case l.ch <- b:
		return a, nil
	case <-l.closed:
		return nil, errors.New("bufpipe: listener closed")
	}
}
