package props

import (
	"fmt"
	"sync"
	"sync/atomic"
	"testing"
	"time"

	"github.com/netflix/rend/common"
	"pgregory.net/rapid"

	"verifharness/evid"
	"verifharness/fakemc"
)

var c06RefuseCase int64

// TestC06Refusals: "one reply per requested key" while the backend answers
// some of the requests with a transient error status (busy, temporary failure,
// out of memory -- each refused key once).  1..8 callers with private keys run
// multi-key gets and getes through the pool; whatever the pool does about the
// refusal (retry, error), a call that ends without an error must have produced
// exactly one response per requested key, each echoing that request's key and
// opaque, hits carrying the caller's own value; and every call must end.
func TestC06Refusals(t *testing.T) {
	rec := evid.For("C06")
	rapid.Check(t, func(t *rapid.T) {
		cfg := genBatchCfg(t)
		env := batchEnvFor(cfg)
		caseNo := atomic.AddInt64(&c06RefuseCase, 1)
		callers := rapid.IntRange(1, 8).Draw(t, "callers")
		status := rapid.SampledFrom([]uint16{0x85, 0x86, 0x82}).Draw(t, "status")
		setup := env.handler()
		keysOf := make([][]string, callers)
		refuse := map[string]int{}
		for c := 0; c < callers; c++ {
			for i := 0; i < 4; i++ {
				k := fmt.Sprintf("r%d-c%d-k%d", caseNo, c, i)
				keysOf[c] = append(keysOf[c], k)
				if i < 3 { // the fourth key of every caller is never stored: a genuine miss
					if err := setup.Set(common.SetRequest{Key: []byte(k), Data: []byte("value of " + k), Flags: uint32(c)}); err != nil {
						t.Fatalf("harness: set: %v", err)
					}
				}
				if rapid.IntRange(0, 3).Draw(t, "refused") == 0 {
					refuse[k] = 1
				}
			}
		}
		var mu sync.Mutex
		env.fake.Arm(&fakemc.Fault{Kind: fakemc.FaultStatus, Status: status, Repeat: true, Match: func(r *fakemc.Req) bool {
			mu.Lock()
			defer mu.Unlock()
			if refuse[r.Key] > 0 {
				refuse[r.Key]--
				return true
			}
			return false
		}})
		defer env.fake.Disarm()
		type plan struct {
			keys []string
			gete bool
		}
		plans := make([][]plan, callers)
		for c := range plans {
			for n := rapid.IntRange(1, 3).Draw(t, "calls"); n > 0; n-- {
				p := plan{gete: rapid.IntRange(0, 3).Draw(t, "gete") == 0}
				for j := rapid.IntRange(2, 5).Draw(t, "nkeys"); j > 0; j-- {
					p.keys = append(p.keys, rapid.SampledFrom(keysOf[c]).Draw(t, "key"))
				}
				plans[c] = append(plans[c], p)
			}
		}
		problems := make([]string, callers)
		var wg sync.WaitGroup
		for c := 0; c < callers; c++ {
			wg.Add(1)
			go func(c int) {
				defer wg.Done()
				h := env.handler()
				for pi, p := range plans[c] {
					opaques := make([]uint32, len(p.keys))
					quiets := make([]bool, len(p.keys))
					for i := range opaques {
						opaques[i] = uint32(c*1000 + pi*10 + i + 1)
						quiets[i] = i < len(p.keys)-1
					}
					resps, err := execGetFull(h, p.keys, opaques, quiets, p.gete)
					if err != nil {
						continue // an outcome
					}
					if len(resps) != len(p.keys) {
						problems[c] = fmt.Sprintf("caller %d, call %d (gete=%v) for keys %v ended without an error after %d responses: %v", c, pi, p.gete, p.keys, len(resps), resps)
						return
					}
					want := map[uint32]string{}
					for i, k := range p.keys {
						want[opaques[i]] = k
					}
					for _, r := range resps {
						k, ok := want[r.Opaque]
						if !ok || k != r.Key {
							problems[c] = fmt.Sprintf("caller %d, call %d for keys %v opaques %v: response %s answers no request of this call (or one of them twice)", c, pi, p.keys, opaques, r)
							return
						}
						delete(want, r.Opaque)
						if !r.Miss && (string(r.Data) != "value of "+k || r.Flags != uint32(c)) {
							problems[c] = fmt.Sprintf("caller %d, call %d: response %s does not carry this caller's value for %q", c, pi, r, k)
							return
						}
					}
				}
			}(c)
		}
		done := make(chan struct{})
		go func() { wg.Wait(); close(done) }()
		select {
		case <-done:
		case <-time.After(hangBound()):
			noteHang()
			t.Fatalf("C06 pool %+v, %d callers, status %#x on first use of some keys: some call did not end within %v", cfg, callers, status, hangBound())
		}
		fired := env.fake.FaultsFired()
		for _, p := range problems {
			if p != "" {
				t.Fatalf("C06 pool %+v, %d callers, backend answered status %#x to the first request naming each of some keys (%d refusals): %s", cfg, callers, status, fired, p)
			}
		}
		rec.Case(fired > 0, fmt.Sprintf("refusals|%+v|%d|%v|%#x", cfg, callers, plans, status), "transient-backend-refusals")
		if fired > 0 && rec.WantSample(true) {
			rec.Sample(true, map[string]interface{}{"pool": fmt.Sprintf("%+v", cfg), "callers": callers, "status": status, "refusals": fired, "caller0_calls": fmt.Sprintf("%+v", plans[0])})
		}
	})
}
