package props

import (
	"fmt"
	"os"
	"strings"
	"testing"

	"pgregory.net/rapid"

	"verifharness/evid"
	"verifharness/fakemc"
	"verifharness/refmodel"
	"verifharness/stack"
	"verifharness/wire"
)

func liveView(f *fakemc.Server) map[string]entryView {
	out := map[string]entryView{}
	for k, e := range f.Live() {
		out[k] = entryView{Value: e.Value, Flags: e.Flags, Deadline: e.Deadline}
	}
	return out
}

type stackCase struct {
	Cfg    stack.Config
	Binary bool
}

func (s stackCase) String() string {
	p := "text"
	if s.Binary {
		p = "bin"
	}
	return s.Cfg.String() + "/" + p
}

func genStackCase(t *rapid.T, l1kinds []string) stackCase {
	shape := rapid.SampledFrom([]string{"l1only", "l1l2", "l1l2+batch"}).Draw(t, "shape")
	lock := rapid.SampledFrom([]string{"nolock", "lock1r", "lockNr"}).Draw(t, "lock")
	l1 := rapid.SampledFrom(l1kinds).Draw(t, "l1")
	cfg := stack.Config{Shape: shape, Lock: lock, L1: l1, L2: "-"}
	if shape != "l1only" {
		cfg.L2 = "std"
	}
	if lock != "nolock" {
		cfg.Conc = rapid.SampledFrom([]uint8{0, 3}).Draw(t, "conc")
		if l1 == "chunked" {
			cfg.Lock = "lock1r" // as app/memproxy.go: chunked forces single-reader
		}
	}
	return stackCase{Cfg: cfg, Binary: rapid.Bool().Draw(t, "binary")}
}

// session is one generated case's set of client connections to a stack.
type session struct {
	st      *stack.Stack
	binary  bool
	clients [2]*wire.Client
}

func newSession(st *stack.Stack, binary bool) *session {
	st.Reset()
	return &session{st: st, binary: binary}
}

func (s *session) client(port int) *wire.Client {
	if s.clients[port] == nil {
		s.clients[port] = wire.NewClient(s.st.Dial(port), s.binary)
	}
	return s.clients[port]
}

func (s *session) close() {
	for _, c := range s.clients {
		if c != nil {
			c.Close()
		}
	}
}

// backfilled reports whether the L1 log entries from index from on show a GET
// miss followed by a SET of the same key (an L1 re-population).
func backfilled(log []fakemc.Req) bool {
	missed := map[string]bool{}
	for _, r := range log {
		if (r.Opcode == fakemc.OpGet || r.Opcode == fakemc.OpGat) && !r.Hit {
			missed[r.Key] = true
		}
		if (r.Opcode == fakemc.OpSet || r.Opcode == fakemc.OpAdd) && missed[r.Key] {
			return true
		}
	}
	return false
}

func TestC01(t *testing.T) {
	rec := evid.For("C01")
	maxSteps := 40
	if thorough() {
		maxSteps = 120
	}
	rapid.Check(t, func(t *rapid.T) {
		sc := genStackCase(t, []string{"std", "std", "std", "chunked", "batched"})
		c01Property(t, rec, stack.Get(sc.Cfg), sc, maxSteps, "")
	})
}

// TestC01Memproxy runs the same property black-box against the real memproxy
// binary (built by the driver from app/memproxy.go), which covers the wiring
// done in main: flags, handler constructors, the batch port sharing the lock
// set.  One configuration per shard.
func TestC01Memproxy(t *testing.T) {
	bin := os.Getenv("VERIF_MEMPROXY")
	if bin == "" {
		t.Skip("VERIF_MEMPROXY not set")
	}
	rec := evid.For("C01")
	shard, _ := evid.Shard()
	cfgs := []stack.Config{
		{Shape: "l1l2+batch", Lock: "nolock", L1: "std", L2: "std"},
		{Shape: "l1l2+batch", Lock: "lockNr", L1: "std", L2: "std", Conc: 3},
		{Shape: "l1only", Lock: "nolock", L1: "std", L2: "-"},
		{Shape: "l1l2+batch", Lock: "lock1r", L1: "std", L2: "std", Conc: 0},
		{Shape: "l1only", Lock: "lockNr", L1: "std", L2: "-", Conc: 8},
		{Shape: "l1l2+batch", Lock: "lockNr", L1: "std", L2: "std", Conc: 0},
	}
	cfg := cfgs[shard%len(cfgs)]
	st, err := stack.External(cfg, bin)
	if err != nil {
		t.Fatalf("harness: %v", err)
	}
	defer st.Stop()
	rapid.Check(t, func(t *rapid.T) {
		sc := stackCase{Cfg: cfg, Binary: rapid.Bool().Draw(t, "binary")}
		c01Property(t, rec, st, sc, 40, "memproxy-binary:")
		if !st.Alive() {
			t.Fatalf("C01 memproxy %s: the server process died", cfg)
		}
	})
}

func c01Property(t *rapid.T, rec *evid.Rec, st *stack.Stack, sc stackCase, maxSteps int, tag string) {
	{
		ses := newSession(st, sc.Binary)
		defer ses.close()
		model := refmodel.New()
		keys := genAlphabet(t)
		opts := cmdGenOpts{Binary: sc.Binary, Keys: keys, TwoPorts: sc.Cfg.Shape == "l1l2+batch", GetE: sc.Cfg.Shape == "l1only" && sc.Cfg.L1 != "chunked"}
		n := rapid.IntRange(1, maxSteps).Draw(t, "steps")
		var cmds []wire.Cmd
		var fp strings.Builder
		fp.WriteString(sc.String())
		dependent, classes := 0, map[string]bool{}
		fail := func(i int, c wire.Cmd, msg string) {
			t.Fatalf("C01 %s step %d %s: %s\nsequence: %s", sc, i, c, msg, strings.Join(cmdsString(cmds), " | "))
		}
		for i := 0; i < n; i++ {
			// now and then the metrics endpoint is scraped between two commands, as a
			// monitoring system does (in-process stacks only; nothing of it is compared)
			if tag == "" && rapid.IntRange(0, 24).Draw(t, "scrape") == 0 {
				readMetricsNoGC()
				classes["metrics-scraped-between-commands"] = true
			}
			now := nowUnix()
			c := genCmd(t, opts, now)
			cmds = append(cmds, c)
			fmt.Fprintf(&fp, "|%d%s%d:%d", c.Kind, c.Key+strings.Join(c.Keys, ","), c.Port, len(c.Value))
			// dependence on an earlier write
			switch c.Kind {
			case wire.Get:
				hits := 0
				for _, k := range c.Keys {
					if model.Live(k, now) != nil {
						hits++
					}
				}
				if hits > 0 {
					dependent++
				}
				if hits > 0 && hits < len(c.Keys) {
					classes["mixed-hit-miss-get"] = true
				}
				seen := map[string]bool{}
				for _, k := range c.Keys {
					if seen[k] {
						classes["duplicate-keys-get"] = true
					}
					seen[k] = true
				}
			default:
				if model.Live(c.Key, now) != nil {
					dependent++
				} else if it, ok := model.M[c.Key]; ok && it.Deadline != 0 {
					classes["expired-key-reused"] = true
				}
			}
			if len(c.Value) > 1024 {
				classes["value>1KiB"] = true
			}
			l1from := 0
			if st.L1 != nil {
				l1from = st.L1.LogLen()
			}
			exp := model.Apply(c, now)
			got, err := ses.client(c.Port).Do(c)
			if err != nil {
				undecidedOrHang(t, rec, st, ses.client(c.Port), err, fmt.Sprintf("C01 %s step %d %s: %v", sc, i, c, err))
			}
			if msg := compare(c, sc.Binary, exp, got); msg != "" {
				fail(i, c, msg)
			}
			if st.L2 == nil && sc.Cfg.L1 == "chunked" {
				if d := chunkedBackendCheck(st.L1.Live(), model, keys, nowUnix()); d != "" {
					fail(i, c, "authoritative backend (chunked image): "+d)
				}
			} else if d := backendDiff(liveView(st.Auth()), model, nowUnix()); d != "" {
				fail(i, c, "authoritative backend: "+d)
			}
			if st.L2 != nil {
				if log := st.L1.Log(); backfilled(log[l1from:]) {
					classes["l1-backfill"] = true
				}
				if bad := st.L2.Bad(); len(bad) > 0 {
					fail(i, c, "malformed request to L2: "+bad[0])
				}
			}
			if bad := st.L1.Bad(); len(bad) > 0 {
				fail(i, c, "malformed request to L1: "+bad[0])
			}
		}
		// final scan of the alphabet: all keys at once in a drawn order (whatever mix
		// of tiers holds them by now), then one key at a time
		now := nowUnix()
		{
			c := wire.Cmd{Kind: wire.Get, Keys: rapid.Permutation(keys).Draw(t, "finalOrder")}
			if sc.Binary {
				c.NoopEnd = rapid.Bool().Draw(t, "finalNoopEnd") // quiet gets closed by a no-op, or by a plain get of the last key
				c.Opaque = 0x5c000000
			}
			exp := model.Apply(c, now)
			got, err := ses.client(0).Do(c)
			if err != nil {
				undecidedOrHang(t, rec, st, ses.client(0), err, fmt.Sprintf("C01 %s final scan: %v", sc, err))
			}
			if msg := compare(c, sc.Binary, exp, got); msg != "" {
				fail(n, c, "final scan, all keys in one request: "+msg)
			}
		}
		for _, k := range keys {
			c := wire.Cmd{Kind: wire.Get, Keys: []string{k}}
			exp := model.Apply(c, now)
			got, err := ses.client(0).Do(c)
			if err != nil {
				undecidedOrHang(t, rec, st, ses.client(0), err, fmt.Sprintf("C01 %s final scan: %v", sc, err))
			}
			if msg := compare(c, sc.Binary, exp, got); msg != "" {
				fail(n, c, "final scan: "+msg)
			}
		}
		// the stream must be clean: a sentinel is answered and nothing precedes it
		sent := wire.Cmd{Kind: wire.Version}
		got, err := ses.client(0).Do(sent)
		if err != nil || got.Class != wire.OK || len(got.Problems) > 0 {
			fail(n, sent, fmt.Sprintf("sentinel: %v %s", err, got))
		}
		nt := dependent > 0
		cl := []string{"cfg:" + tag + sc.String()}
		for c := range classes {
			cl = append(cl, c)
		}
		rec.Case(nt, tag+fp.String(), cl...)
		if rec.WantSample(nt) {
			rec.Sample(nt, map[string]interface{}{"config": tag + sc.String(), "commands": cmdsString(cmds)})
		}
	}
}
