package props

import (
	"fmt"
	"sync"
	"sync/atomic"
	"testing"
	"time"

	"github.com/netflix/rend/common"
	"github.com/netflix/rend/handlers"
	"github.com/netflix/rend/handlers/memcached/std"

	"verifharness/bufpipe"
	"verifharness/evid"
	"verifharness/fakemc"
	"verifharness/wire"
)

// TestC14Handlers: what connections share below the orchestrators are the
// object pools of the protocol package.  48 goroutines, each with its own
// backend connection and handler (chunked and std alternating) as every client
// connection has, run set / delete / touch-of-a-missing-key / get / append on
// private keys against one fake as fast as they can: several hundred thousand
// backend replies go through the pooled response headers.  Oracle: every call
// has the outcome the goroutine's own history dictates, and the race detector
// (the driver builds this test with -race and collects its log) stays silent
// on rend frames.
func TestC14Handlers(t *testing.T) {
	rec := evid.For("C14")
	f := fakemc.New()
	dur := 20 * time.Second
	if thorough() {
		dur = 150 * time.Second
	}
	const n = 48
	var wg sync.WaitGroup
	var stop int32
	var ops int64
	var mu sync.Mutex
	problem := ""
	report := func(s string) {
		mu.Lock()
		if problem == "" {
			problem = s
		}
		mu.Unlock()
		atomic.StoreInt32(&stop, 1)
	}
	for g := 0; g < n; g++ {
		wg.Add(1)
		go func(g int) {
			defer wg.Done()
			var h handlers.Handler
			kind := "chunked"
			if g%3 == 2 {
				kind = "std"
				a, b := bufpipe.Pair()
				f.ServeConn(b)
				h = std.NewHandler(a)
			} else {
				h = chunkedOn(f)
			}
			key := fmt.Sprintf("g%d", g)
			missing := fmt.Sprintf("never-%d", g)
			stored := false
			val := ""
			for i := 0; atomic.LoadInt32(&stop) == 0; i++ {
				what := ""
				switch (i*7 + g) % 5 {
				case 0:
					val = fmt.Sprintf("value-%d-%d", g, i)
					if err := h.Set(common.SetRequest{Key: []byte(key), Data: []byte(val), Flags: uint32(g)}); err != nil {
						what = fmt.Sprintf("set: %v", err)
					}
					stored = true
				case 1:
					err := h.Delete(common.DeleteRequest{Key: []byte(key)})
					if stored && err != nil || !stored && err != common.ErrKeyNotFound {
						what = fmt.Sprintf("delete of a key that is stored=%v: %v", stored, err)
					}
					stored = false
				case 2:
					if err := h.Touch(common.TouchRequest{Key: []byte(missing), Exptime: 0}); err != common.ErrKeyNotFound {
						what = fmt.Sprintf("touch of a key that was never stored: %v", err)
					}
				case 3:
					res, _ := execHandler(h, wire.Cmd{Kind: wire.Get, Keys: []string{key, missing}}, 0)
					if res.Err != nil || (res.Hits[0] != nil) != stored || res.Hits[1] != nil || (stored && (string(res.Hits[0].Value) != val || res.Hits[0].Flags != uint32(g))) {
						what = fmt.Sprintf("get of own key (stored=%v, value %q) and a never-stored key: %+v", stored, val, res)
					}
				default:
					err := h.Append(common.SetRequest{Key: []byte(key), Data: []byte("+")})
					if stored && err != nil || !stored && err != common.ErrItemNotStored && err != common.ErrKeyNotFound {
						what = fmt.Sprintf("append to a key that is stored=%v: %v", stored, err)
					}
					if stored && err == nil {
						val += "+"
					}
				}
				if what != "" {
					report(fmt.Sprintf("goroutine %d (%s handler, private key %q), call %d: %s", g, kind, key, i, what))
					return
				}
				atomic.AddInt64(&ops, 1)
			}
		}(g)
	}
	for t0 := time.Now(); time.Since(t0) < dur && atomic.LoadInt32(&stop) == 0; {
		time.Sleep(50 * time.Millisecond)
	}
	atomic.StoreInt32(&stop, 1)
	wg.Wait()
	shard, _ := evid.Shard()
	rec.Case(ops > 10000, fmt.Sprintf("handlers|%d|%d|%d", evid.Seed(), shard, ops/1000), "handler-level-pool-sharing")
	rec.Sample(true, map[string]interface{}{"handler_goroutines": n, "handler_calls": ops, "seconds": dur.Seconds()})
	if problem != "" {
		p := rec.Violation("TestC14Handlers", map[string]interface{}{"problem": problem})
		t.Fatalf("C14 handlers sharing the process: %s; replay %s", problem, p)
	}
}
