package props

import (
	"fmt"
	"sync"
	"sync/atomic"
	"testing"

	"verifharness/evid"
	"verifharness/stack"
	"verifharness/wire"
)

var c03SharedRound int64

// TestC03SharedKey: the locking wrapper in front of real handlers, including
// the chunked one, for which a single append is a whole conversation with the
// backend (read the metadata, read the chunks, write everything back).  Two
// connections append and one prepends numbered tokens to one key, two read it,
// all through the real server.  With the wrapper every command on the key is
// atomic: every value read is the seed with whole tokens around it (none twice,
// each writer's in order, never fewer than the same connection saw before) and
// the final value holds every acknowledged token.  Timing dependent: it can
// miss a missing lock, it cannot raise a false alarm.
func TestC03SharedKey(t *testing.T) {
	rec := evid.For("C03")
	rounds := 4
	if thorough() {
		rounds = 60
	}
	shard, _ := evid.Shard()
	cfgs := []stack.Config{
		{Shape: "l1only", Lock: "lock1r", L1: "chunked", L2: "-"},
		{Shape: "l1l2", Lock: "lock1r", L1: "chunked", L2: "std"},
		{Shape: "l1l2+batch", Lock: "lockNr", L1: "std", L2: "std", Conc: 3},
		{Shape: "l1only", Lock: "lockNr", L1: "std", L2: "-"},
	}
	for round := 0; round < rounds; round++ {
		cfg := cfgs[(round+shard)%len(cfgs)]
		st := stack.Get(cfg)
		st.Reset()
		key := fmt.Sprintf("c03shared-%d-%d", shard, atomic.AddInt64(&c03SharedRound, 1))
		seed := "<seed-" + key + ">"
		perWriter := 120
		setup := wire.NewClient(st.Dial(0), true)
		if o, err := setup.Do(wire.Cmd{Kind: wire.Set, Key: key, Value: []byte(seed), Flags: 9}); err != nil || o.Class != wire.OK {
			t.Fatalf("harness: set of the seed value: %v %s", err, o)
		}
		var wg, rwg sync.WaitGroup
		var stop int32
		var acked, grownReads int64
		var mu sync.Mutex
		problem := ""
		report := func(s string) {
			mu.Lock()
			if problem == "" {
				problem = s
			}
			mu.Unlock()
			atomic.StoreInt32(&stop, 1)
		}
		for w := 0; w < 3; w++ {
			wg.Add(1)
			go func(w int) {
				defer wg.Done()
				port := 0
				if cfg.Shape == "l1l2+batch" && w == 1 {
					port = 1
				}
				cl := wire.NewClient(st.Dial(port), (w+round)%2 == 0)
				cl.Timeout = hangBound()
				defer cl.Close()
				kind, letter := wire.Append, []rune{'a', 'b', 'p'}[w]
				if w == 2 {
					kind = wire.Prepend
				}
				for i := 0; i < perWriter && atomic.LoadInt32(&stop) == 0; i++ {
					o, err := cl.Do(wire.Cmd{Kind: kind, Key: key, Value: []byte(fmt.Sprintf("[%c%06d]", letter, i)), Port: port})
					if err != nil || o.Class != wire.OK {
						if err == wire.ErrTimeout {
							noteHang()
						}
						report(fmt.Sprintf("%s of token %d on the existing key (port %d): %v %s", kind, i, port, err, o))
						return
					}
					atomic.AddInt64(&acked, 1)
				}
			}(w)
		}
		for r := 0; r < 2; r++ {
			rwg.Add(1)
			go func(r int) {
				defer rwg.Done()
				cl := wire.NewClient(st.Dial(0), r == 1)
				cl.Timeout = hangBound()
				defer cl.Close()
				most := 0
				for atomic.LoadInt32(&stop) == 0 {
					o, err := cl.Do(wire.Cmd{Kind: wire.Get, Keys: []string{key}})
					if err != nil || len(o.Hits) != 1 || len(o.Problems) > 0 {
						if err == wire.ErrTimeout {
							noteHang()
						}
						report(fmt.Sprintf("reader %d: get of the key: %v %s", r, err, o))
						return
					}
					n, msg := parseGrown(string(o.Hits[0].Value), seed)
					if msg == "" && n < most {
						msg = fmt.Sprintf("this connection read %d tokens before and reads %d now", most, n)
					}
					if msg == "" && o.Hits[0].Flags != 9 {
						msg = fmt.Sprintf("flags %d, stored with 9", o.Hits[0].Flags)
					}
					if msg != "" {
						report(fmt.Sprintf("reader %d read %s: %s", r, short(o.Hits[0].Value), msg))
						return
					}
					most = n
					if n > 0 {
						atomic.AddInt64(&grownReads, 1)
					}
				}
			}(r)
		}
		wg.Wait()
		atomic.StoreInt32(&stop, 1)
		rwg.Wait()
		if problem == "" {
			o, err := setup.Do(wire.Cmd{Kind: wire.Get, Keys: []string{key}})
			if err != nil || len(o.Hits) != 1 {
				problem = fmt.Sprintf("final get: %v %s", err, o)
			} else if n, msg := parseGrown(string(o.Hits[0].Value), seed); msg != "" {
				problem = fmt.Sprintf("final value (%d bytes): %s", len(o.Hits[0].Value), msg)
			} else if int64(n) != acked {
				problem = fmt.Sprintf("final value holds %d tokens, %d appends and prepends were acknowledged", n, acked)
			}
		}
		setup.Close()
		rec.Case(grownReads > 0, fmt.Sprintf("shared|%s|%d|%d", cfg, shard, round), "real-handlers-shared-key", "cfg:"+cfg.String())
		if problem != "" {
			p := rec.Violation("TestC03SharedKey", map[string]interface{}{"config": cfg.String(), "problem": problem})
			t.Fatalf("C03 %s, two appending, one prepending and two reading connections on key %q: %s; replay %s", cfg, key, problem, p)
		}
		if round < 2 {
			rec.Sample(true, map[string]interface{}{"config": cfg.String(), "tokens_acknowledged": acked, "reads_of_a_grown_value": grownReads})
		}
	}
}
