package props

import (
	"bytes"
	"fmt"
	"sort"
	"strconv"
	"strings"
	"testing"

	"pgregory.net/rapid"

	"verifharness/evid"
	"verifharness/fakemc"
	"verifharness/stack"
	"verifharness/wire"
)

// canonOutcome renders an outcome with the values of one get in canonical
// order (an L1 hit is written before an L2 hit, so eviction may reorder them).
func canonOutcome(o wire.Outcome) string {
	var hs []string
	for _, h := range o.Hits {
		hs = append(hs, fmt.Sprintf("%q=%x/%d", h.Key, h.Value, h.Flags))
	}
	sort.Strings(hs)
	return fmt.Sprintf("%s|%v|miss=%d|term=%v|line=%q|st=%d|problems=%v", o.Class, hs, len(o.Misses), o.Terminated, o.Line, o.Status, o.Problems)
}

// l1SubsetOfL2 checks that every live L1 entry is live in L2 with equal value and flags.
func l1SubsetOfL2(st *stack.Stack) string {
	l1, l2 := st.L1.Live(), st.L2.Live()
	if st.Cfg.L1 == "chunked" {
		// a key is "present in L1" when its metadata and all chunks named by it
		// are there with the metadata's token, i.e. when L1 can serve it
		for bk, me := range l1 {
			if !strings.HasSuffix(bk, "-meta") {
				continue
			}
			k := strings.TrimSuffix(bk, "-meta")
			md, ok := parseMeta(me.Value)
			if !ok {
				return fmt.Sprintf("L1 metadata of %q malformed", k)
			}
			var val []byte
			servable := true
			for i := 0; i < int(md.NumChunks); i++ {
				ce, ok := l1[k+"-"+strconv.Itoa(i)]
				if !ok || len(ce.Value) < tokenLen || !bytes.Equal(ce.Value[:tokenLen], md.Token) {
					servable = false
					break
				}
				val = append(val, ce.Value[tokenLen:]...)
			}
			if !servable || len(val) < int(md.Length) {
				continue
			}
			val = val[:md.Length]
			o, ok := l2[k]
			if !ok {
				return fmt.Sprintf("L1 can serve %q (%s, flags %d) which L2 does not hold", k, short(val), md.Flags)
			}
			if !bytes.Equal(val, o.Value) || md.Flags != o.Flags {
				return fmt.Sprintf("L1 serves %q = (%s, flags %d) but L2 = (%s, flags %d)", k, short(val), md.Flags, short(o.Value), o.Flags)
			}
		}
		return ""
	}
	for k, e := range l1 {
		o, ok := l2[k]
		if !ok {
			return fmt.Sprintf("L1 holds %q (%s, flags %d) which L2 does not hold", k, short(e.Value), e.Flags)
		}
		if !bytes.Equal(e.Value, o.Value) || e.Flags != o.Flags {
			return fmt.Sprintf("L1 %q = (%s, flags %d) but L2 = (%s, flags %d)", k, short(e.Value), e.Flags, short(o.Value), o.Flags)
		}
	}
	return ""
}

func l1Trace(log []fakemc.Req) string {
	var b strings.Builder
	for _, r := range log {
		fmt.Fprintf(&b, "%x:%s:%v;", r.Opcode, r.Key, r.Hit)
	}
	return b.String()
}

func TestC02(t *testing.T) {
	rec := evid.For("C02")
	maxSteps := 30
	if thorough() {
		maxSteps = 80
	}
	rapid.Check(t, func(t *rapid.T) {
		lock := rapid.SampledFrom([]string{"nolock", "lock1r", "lockNr"}).Draw(t, "lock")
		cfg := stack.Config{Shape: "l1l2+batch", Lock: lock, L1: rapid.SampledFrom([]string{"std", "std", "chunked", "batched"}).Draw(t, "l1"), L2: "std"}
		if lock != "nolock" {
			cfg.Conc = rapid.SampledFrom([]uint8{0, 3}).Draw(t, "conc")
			if cfg.L1 == "chunked" {
				cfg.Lock = "lock1r"
			}
		}
		binary := rapid.Bool().Draw(t, "binary")
		st := stack.Get(cfg)
		opts := cmdGenOpts{Binary: binary, Keys: smallKeys, TwoPorts: true, NoExpiry: true}
		n := rapid.IntRange(2, maxSteps).Draw(t, "steps")
		now := nowUnix()
		cmds := make([]wire.Cmd, n)
		evict := make([][]string, n)
		for i := range cmds {
			cmds[i] = genCmd(t, opts, now)
			if rapid.IntRange(0, 2).Draw(t, "evictHere") == 0 {
				mask := rapid.IntRange(1, 15).Draw(t, "evictMask")
				for b, k := range smallKeys {
					if mask&(1<<b) != 0 {
						if cfg.L1 != "chunked" {
							evict[i] = append(evict[i], k)
							continue
						}
						// chunked L1: any subset of the key's backend entries
						sub := rapid.IntRange(1, 63).Draw(t, "evictEntries")
						if sub&1 != 0 {
							evict[i] = append(evict[i], k+"-meta")
						}
						for c := 0; c < 5; c++ {
							if sub&(2<<uint(c)) != 0 {
								evict[i] = append(evict[i], k+"-"+strconv.Itoa(c))
							}
						}
					}
				}
			}
		}
		desc := func() string {
			var parts []string
			for i, c := range cmds {
				s := c.String()
				if len(evict[i]) > 0 {
					s = fmt.Sprintf("[evict %v] %s", evict[i], s)
				}
				parts = append(parts, s)
			}
			return strings.Join(parts, " | ")
		}
		run := func(withEvictions bool) (outs []string, trace string, evicted int, touchedAfter bool) {
			ses := newSession(st, binary)
			defer ses.close()
			evKeys := map[string]bool{}
			for i, c := range cmds {
				if withEvictions && len(evict[i]) > 0 {
					before := st.L1.Live()
					for _, k := range evict[i] {
						if _, ok := before[k]; ok {
							ck := k
							if cfg.L1 == "chunked" {
								ck = k[:strings.LastIndex(k, "-")]
							}
							evKeys[ck] = true
							evicted++
						}
					}
					st.L1.Evict(evict[i]...)
				}
				for _, k := range append([]string{c.Key}, c.Keys...) {
					if evKeys[k] {
						touchedAfter = true
					}
				}
				got, err := ses.client(c.Port).Do(c)
				if err != nil {
					undecidedOrHang(t, rec, st, ses.client(c.Port), err, fmt.Sprintf("C02 %s step %d (%s): %v", cfg, i, c, err))
				}
				outs = append(outs, canonOutcome(got))
				if d := l1SubsetOfL2(st); d != "" {
					t.Fatalf("C02 %s bin=%v evictions=%v: after step %d (%s): %s\n%s", cfg, binary, withEvictions, i, c, d, desc())
				}
			}
			return outs, l1Trace(st.L1.Log()), evicted, touchedAfter
		}
		outA, traceA, _, _ := run(false)
		outB, traceB, evicted, touched := run(true)
		for i := range cmds {
			if outA[i] != outB[i] {
				t.Fatalf("C02 %s bin=%v: reply to step %d (%s) differs with L1 evictions\n without: %s\n with:    %s\n%s", cfg, binary, i, cmds[i], outA[i], outB[i], desc())
			}
		}
		nt := evicted > 0 && touched && traceA != traceB
		var fp strings.Builder
		fmt.Fprintf(&fp, "%s/%v", cfg, binary)
		for i, c := range cmds {
			fmt.Fprintf(&fp, "|%v%d%s%d:%d", evict[i], c.Kind, c.Key+strings.Join(c.Keys, ","), c.Port, len(c.Value))
		}
		cl := []string{fmt.Sprintf("cfg:%s/bin=%v", cfg, binary)}
		if evicted > 0 {
			cl = append(cl, "some-entry-evicted")
		}
		rec.Case(nt, fp.String(), cl...)
		if rec.WantSample(nt) {
			rec.Sample(nt, map[string]interface{}{"config": cfg.String(), "binary": binary, "sequence_with_evictions": desc()})
		}
	})
}
