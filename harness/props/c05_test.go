package props

import (
	"bytes"
	"fmt"
	"strconv"
	"sync"
	"testing"
	"time"

	"pgregory.net/rapid"

	"github.com/netflix/rend/handlers"

	"verifharness/evid"
	"verifharness/fakemc"
	"verifharness/refmodel"
	"verifharness/wire"
)

type fullValue struct {
	Value []byte
	Flags uint32
}

func matchesSome(h *refmodel.Hit, written []fullValue) bool {
	for _, w := range written {
		if bytes.Equal(h.Value, w.Value) && h.Flags == w.Flags {
			return true
		}
	}
	return false
}

// c05SubsetCase runs one (shape, subset, op) case; returns "" or a violation text.
type c05Subset struct {
	Chunks  int    `json:"chunks"`
	Partial bool   `json:"partial"` // last chunk partially filled
	Older   bool   `json:"older"`   // an older, longer version was written first
	Removed []int  `json:"removed"` // -1 = metadata, i = chunk i
	Op      string `json:"op"`      // get | gat | append-get
}

func runC05Subset(c c05Subset) string {
	key := "kk"
	p := chunkPayload(len(key))
	n := c.Chunks*p - b2i(c.Partial && c.Chunks > 0)*(p/3)
	h, f := newChunked()
	defer h.Close()
	var written []fullValue
	if c.Older {
		v1 := fullValue{mkValue(11, (c.Chunks+2)*p-5), 111}
		if r, _ := execHandler(h, wire.Cmd{Kind: wire.Set, Key: key, Value: v1.Value, Flags: v1.Flags}, 0); r.Err != nil {
			return "setup: " + r.Err.Error()
		}
		written = append(written, v1)
	}
	v2 := fullValue{mkValue(22, n), 222}
	if r, _ := execHandler(h, wire.Cmd{Kind: wire.Set, Key: key, Value: v2.Value, Flags: v2.Flags}, 0); r.Err != nil {
		return "setup: " + r.Err.Error()
	}
	written = append(written, v2)
	for _, r := range c.Removed {
		if r < 0 {
			f.Evict(key + "-meta")
		} else {
			f.Evict(key + "-" + strconv.Itoa(r))
		}
	}
	h2 := chunkedOn(f) // a fresh handler/connection for the read
	defer h2.Close()
	done := make(chan string, 1)
	go func() {
		switch c.Op {
		case "get", "gat":
			k := wire.Get
			cmd := wire.Cmd{Kind: k, Keys: []string{key}}
			if c.Op == "gat" {
				cmd = wire.Cmd{Kind: wire.Gat, Key: key, Exptime: 1000}
			}
			res, _ := execHandler(h2, cmd, 0)
			if res.Err != nil {
				done <- "" // an error is not a torn value
				return
			}
			if hit := res.Hits[0]; hit != nil && !matchesSome(hit, written) {
				done <- fmt.Sprintf("%s returned a hit (%d bytes, flags %d) that no single set wrote: first difference from the current value at byte %d of %d", c.Op, len(hit.Value), hit.Flags, firstDiff(v2.Value, hit.Value), len(v2.Value))
				return
			}
		case "append-get":
			x := []byte("<appended>")
			res, _ := execHandler(h2, wire.Cmd{Kind: wire.Append, Key: key, Value: x}, 0)
			allowed := append([]fullValue(nil), written...)
			allowed = append(allowed, fullValue{append(append([]byte(nil), v2.Value...), x...), v2.Flags})
			if res.Class == refmodel.OK && len(c.Removed) > 0 {
				// an append that succeeded must have had the whole current value to append to
				done <- fmt.Sprintf("append succeeded although %v of the value's entries were gone", c.Removed)
				return
			}
			r2, _ := execHandler(h2, wire.Cmd{Kind: wire.Get, Keys: []string{key}}, 0)
			if r2.Err == nil {
				if hit := r2.Hits[0]; hit != nil && !matchesSome(hit, allowed) {
					done <- fmt.Sprintf("get after append returned a hit (%d bytes) that is neither a written value nor value+appendix", len(hit.Value))
					return
				}
			}
		}
		done <- ""
	}()
	select {
	case msg := <-done:
		return msg
	case <-time.After(hangBound()):
		noteHang()
		return "the read did not return within the bound (handler loop does not terminate)"
	}
}

func TestC05Subsets(t *testing.T) {
	rec := evid.For("C05")
	shard, shards := evid.Shard()
	idx := 0
	for n := 0; n <= 6; n++ {
		for _, partial := range []bool{false, true} {
			for _, older := range []bool{false, true} {
				for mask := 0; mask < 1<<(n+1); mask++ {
					for _, op := range []string{"get", "gat", "append-get"} {
						idx++
						if idx%shards != shard {
							continue
						}
						c := c05Subset{Chunks: n, Partial: partial, Older: older, Op: op}
						for b := 0; b <= n; b++ {
							if mask&(1<<b) != 0 {
								c.Removed = append(c.Removed, b-1)
							}
						}
						msg := runC05Subset(c)
						nt := mask != 0 && mask != 1<<(n+1)-1
						rec.Case(nt, fmt.Sprintf("sub|%d|%v|%v|%d|%s", n, partial, older, mask, op), "subset-removal")
						if msg != "" {
							p := rec.Violation("TestC05Replay", c)
							t.Errorf("C05 subsets chunks=%d partial=%v older=%v removed=%v op=%s: %s; replay %s", n, partial, older, c.Removed, op, msg, p)
							return
						}
						if nt && rec.WantSample(true) {
							rec.Sample(true, c)
						}
					}
				}
			}
		}
	}
	// many chunks (beyond any pipelining window a reader may use): single chunks and
	// pairs lost at the start, around 64 and 128, in the middle and at the end
	for _, n := range []int{63, 64, 65, 70, 127, 129, 200, 257, 300} {
		spots := []int{0, 1, 31, 62, 63, 64, 65, n / 2, 126, 127, 128, 255, 256, n - 2, n - 1}
		sets := [][]int{nil} // nothing lost: the whole value must come back
		for _, a := range spots {
			if a < n {
				sets = append(sets, []int{a})
			}
		}
		for i := 0; i+3 < len(spots); i += 2 {
			if spots[i] < n && spots[i+3] < n && spots[i] != spots[i+3] {
				sets = append(sets, []int{spots[i], spots[i+3]})
			}
		}
		for _, removed := range sets {
			for _, op := range []string{"get", "gat", "append-get"} {
				idx++
				if idx%shards != shard {
					continue
				}
				c := c05Subset{Chunks: n, Partial: n%2 == 1, Older: n%3 == 0, Op: op, Removed: removed}
				msg := runC05Subset(c)
				rec.Case(true, fmt.Sprintf("sub-large|%d|%v|%s", n, removed, op), "subset-removal-many-chunks")
				if msg != "" {
					p := rec.Violation("TestC05Replay", c)
					t.Errorf("C05 subsets chunks=%d removed=%v op=%s: %s; replay %s", n, removed, op, msg, p)
					return
				}
			}
		}
	}
	rec.MarkExhaustive("every subset of {metadata, chunk 0..n-1} removed, n=0..6, last chunk full/partial, with/without an older longer version, ops get/gat/append-then-get")
}

func TestC05Replay(t *testing.T) {
	path := evid.ReplayFile()
	if path == "" {
		t.Skip("no replay file")
	}
	var raw map[string]interface{}
	if _, err := evid.LoadReplay(path, &raw); err != nil {
		t.Fatal(err)
	}
	if _, ok := raw["op"]; ok {
		var c c05Subset
		evid.LoadReplay(path, &c)
		if msg := runC05Subset(c); msg != "" {
			t.Fatalf("C05 replay %+v: %s", c, msg)
		}
		return
	}
	var c c05Race
	evid.LoadReplay(path, &c)
	if msg, _ := runC05Race(c, c.Schedule, nil); msg != "" {
		t.Fatalf("C05 replay %+v: %s", c, msg)
	}
}

// ---------- (b) interleavings of two writers and a reader ----------

type c05Race struct {
	KindB    string `json:"kindB,omitempty"` // what the second writer does: set (default) | append | prepend | replace | add | delete
	ChunksA  int    `json:"chunksA"`
	ChunksB  int    `json:"chunksB"`
	Reader   string `json:"reader"` // get | gat | none
	Preload  bool   `json:"preload"`
	Schedule []int  `json:"schedule"` // choice (index among enabled actors) per step; beyond its end: 0
}

// gate serialises backend requests: every request read by the fake waits
// until the controller releases the actor that owns its connection.
type gate struct {
	mu      sync.Mutex
	actorOf map[int]int // fake conn id -> actor
	events  chan gateEvent
	release [3]chan struct{}
}

type gateEvent struct {
	actor    int
	finished bool
}

// runC05Race executes one schedule.  It returns a violation text (or "") and
// the trace of (chosen, enabled) pairs for DFS.
func runC05Race(c c05Race, schedule []int, trace *[][2]int) (string, bool) {
	key := "rk"
	p := chunkPayload(len(key))
	f := fakemc.New()
	g := &gate{actorOf: map[int]int{}, events: make(chan gateEvent, 16)}
	for i := range g.release {
		g.release[i] = make(chan struct{})
	}
	written := []fullValue{}
	setup := chunkedOn(f)
	if c.Preload {
		v0 := fullValue{mkValue(5, p+p/2), 50}
		execHandler(setup, wire.Cmd{Kind: wire.Set, Key: key, Value: v0.Value, Flags: v0.Flags}, 0)
		written = append(written, v0)
	}
	setup.Close()
	vA := fullValue{mkValue(100, c.ChunksA*p-b2i(c.ChunksA > 0)*7), 1}
	vB := fullValue{mkValue(200, c.ChunksB*p-b2i(c.ChunksB > 0)*9), 2}
	cmdB := wire.Cmd{Kind: wire.Set, Key: key, Value: vB.Value, Flags: vB.Flags}
	switch c.KindB {
	case "", "set":
		written = append(written, vA, vB)
	case "replace", "add":
		cmdB.Kind = map[string]wire.Kind{"replace": wire.Replace, "add": wire.Add}[c.KindB]
		written = append(written, vA, vB)
	case "delete":
		cmdB = wire.Cmd{Kind: wire.Delete, Key: key}
		written = append(written, vA)
	case "append", "prepend":
		// an append rewrites base+x as one value; the base may be any value written in full before
		cmdB = wire.Cmd{Kind: wire.Append, Key: key, Value: vB.Value}
		bases := append([]fullValue(nil), written...)
		bases = append(bases, vA)
		written = append(written, vA)
		for _, b := range bases {
			if c.KindB == "append" {
				written = append(written, fullValue{append(append([]byte(nil), b.Value...), vB.Value...), b.Flags})
			} else {
				cmdB.Kind = wire.Prepend
				written = append(written, fullValue{append(append([]byte(nil), vB.Value...), b.Value...), b.Flags})
			}
		}
	}

	gated := false
	f.Before = func(r *fakemc.Req) {
		if !gated {
			return
		}
		g.mu.Lock()
		a, ok := g.actorOf[r.Conn]
		g.mu.Unlock()
		if !ok {
			return
		}
		g.events <- gateEvent{actor: a}
		<-g.release[a]
	}
	// three actors, each with its own handler/connection
	type actor struct {
		run func()
	}
	var readerRes hres
	var hs []handlers.Handler
	mk := func(a int) handlers.Handler {
		h, id := chunkedOnID(f)
		g.mu.Lock()
		g.actorOf[id] = a
		g.mu.Unlock()
		hs = append(hs, h)
		return h
	}
	hA, hB, hR := mk(0), mk(1), mk(2)
	defer func() {
		for _, h := range hs {
			h.Close()
		}
	}()
	gated = true
	actors := []actor{
		{func() { execHandler(hA, wire.Cmd{Kind: wire.Set, Key: key, Value: vA.Value, Flags: vA.Flags}, 0) }},
		{func() { execHandler(hB, cmdB, 0) }},
		{func() {
			switch c.Reader {
			case "get":
				readerRes, _ = execHandler(hR, wire.Cmd{Kind: wire.Get, Keys: []string{key}}, 0)
			case "gat":
				readerRes, _ = execHandler(hR, wire.Cmd{Kind: wire.Gat, Key: key, Exptime: 500}, 0)
			}
		}},
	}
	nActors := 3
	if c.Reader == "none" {
		nActors = 2
	}
	state := make([]int, nActors) // 0 running, 1 pending at gate, 2 finished
	for a := 0; a < nActors; a++ {
		a := a
		go func() {
			actors[a].run()
			g.events <- gateEvent{actor: a, finished: true}
		}()
	}
	running := nActors
	step := 0
	switches, lastActor := 0, -1
	timeout := time.After(hangBound())
	for {
		for running > 0 {
			select {
			case ev := <-g.events:
				if ev.finished {
					state[ev.actor] = 2
				} else {
					state[ev.actor] = 1
				}
				running--
			case <-timeout:
				return "an actor neither finished nor issued a backend request within the bound", false
			}
		}
		var enabled []int
		for a, s := range state {
			if s == 1 {
				enabled = append(enabled, a)
			}
		}
		if len(enabled) == 0 {
			break
		}
		choice := 0
		if step < len(schedule) {
			choice = schedule[step] % len(enabled)
		}
		if trace != nil {
			*trace = append(*trace, [2]int{choice, len(enabled)})
		}
		a := enabled[choice]
		if lastActor >= 0 && a != lastActor {
			switches++
		}
		lastActor = a
		step++
		state[a] = 0
		running = 1
		g.release[a] <- struct{}{}
	}
	gated = false
	interesting := switches >= 2
	if c.Reader != "none" && readerRes.Err == nil && len(readerRes.Hits) == 1 {
		if hit := readerRes.Hits[0]; hit != nil && !matchesSome(hit, written) {
			return fmt.Sprintf("the concurrent %s returned a hit (%d bytes, flags %d) that no single set wrote in full", c.Reader, len(hit.Value), hit.Flags), interesting
		}
	}
	fin := chunkedOn(f)
	defer fin.Close()
	res, _ := execHandler(fin, wire.Cmd{Kind: wire.Get, Keys: []string{key}}, 0)
	if res.Err == nil {
		if hit := res.Hits[0]; hit != nil && !matchesSome(hit, written) {
			return fmt.Sprintf("after both sets finished a get returned a hit (%d bytes, flags %d) that no single set wrote in full", len(hit.Value), hit.Flags), interesting
		}
	}
	return "", interesting
}

func TestC05Interleavings(t *testing.T) {
	rec := evid.For("C05")
	shard, shards := evid.Shard()
	// exhaustive DFS for <=2 chunks per writer
	type shape struct {
		a, b    int
		reader  string
		preload bool
		kindB   string
	}
	var shapes []shape
	for a := 0; a <= 2; a++ {
		for b := 0; b <= 2; b++ {
			for _, rd := range []string{"get", "gat"} {
				for _, pre := range []bool{false, true} {
					shapes = append(shapes, shape{a, b, rd, pre, ""})
				}
			}
		}
	}
	for _, kb := range []string{"append", "prepend", "replace", "add", "delete"} {
		for a := 1; a <= 2; a++ {
			shapes = append(shapes, shape{a, 1, "get", true, kb})
		}
	}
	maxPerShape := 1500
	if thorough() {
		maxPerShape = 1 << 30
	}
	total := 0
	for si, sh := range shapes {
		if si%shards != shard {
			continue
		}
		c := c05Race{ChunksA: sh.a, ChunksB: sh.b, Reader: sh.reader, Preload: sh.preload, KindB: sh.kindB}
		var prefix []int
		count := 0
		complete := false
		for {
			var trace [][2]int
			msg, interesting := runC05Race(c, prefix, &trace)
			count++
			total++
			rec.Case(interesting, fmt.Sprintf("race|%d|%d|%s|%v|%s|%v", sh.a, sh.b, sh.reader, sh.preload, sh.kindB, trace), "interleaving-dfs")
			if msg != "" {
				c.Schedule = make([]int, len(trace))
				for i, tr := range trace {
					c.Schedule[i] = tr[0]
				}
				p := rec.Violation("TestC05Replay", c)
				t.Errorf("C05 interleaving %+v: %s; replay %s", c, msg, p)
				return
			}
			if interesting && rec.WantSample(true) {
				rec.Sample(true, map[string]interface{}{"chunksA": sh.a, "chunksB": sh.b, "reader": sh.reader, "preload": sh.preload, "schedule(choice,enabled)": fmt.Sprint(trace)})
			}
			// backtrack
			pos := len(trace) - 1
			for pos >= 0 && trace[pos][0]+1 >= trace[pos][1] {
				pos--
			}
			if pos < 0 {
				complete = true
				break
			}
			prefix = prefix[:0]
			for i := 0; i < pos; i++ {
				prefix = append(prefix, trace[i][0])
			}
			prefix = append(prefix, trace[pos][0]+1)
			if count >= maxPerShape {
				break
			}
		}
		if complete {
			rec.Class("shape-enumerated-completely")
		} else {
			rec.Class("shape-enumeration-truncated")
		}
	}
	rec.ClassN("dfs-schedules", int64(total))
}

func TestC05Random(t *testing.T) {
	rec := evid.For("C05")
	rapid.Check(t, func(t *rapid.T) {
		c := c05Race{
			ChunksA: rapid.IntRange(0, 6).Draw(t, "chunksA"),
			ChunksB: rapid.IntRange(0, 6).Draw(t, "chunksB"),
			Reader:  rapid.SampledFrom([]string{"get", "gat"}).Draw(t, "reader"),
			Preload: rapid.Bool().Draw(t, "preload"),
			KindB:   rapid.SampledFrom([]string{"set", "set", "append", "prepend", "replace", "add", "delete"}).Draw(t, "kindB"),
		}
		c.Schedule = rapid.SliceOfN(rapid.IntRange(0, 2), 0, 30).Draw(t, "schedule")
		var trace [][2]int
		msg, interesting := runC05Race(c, c.Schedule, &trace)
		if msg != "" {
			t.Fatalf("C05 random interleaving %+v: %s", c, msg)
		}
		rec.Case(interesting, fmt.Sprintf("rnd|%d|%d|%s|%v|%s|%v", c.ChunksA, c.ChunksB, c.Reader, c.Preload, c.KindB, trace), "interleaving-random")
	})
}
