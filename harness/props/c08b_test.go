package props

import (
	"bufio"
	"fmt"
	"strings"
	"testing"
	"time"

	"pgregory.net/rapid"

	"verifharness/evid"
	"verifharness/stack"
	"verifharness/wire"
)

// TestC08NoSentinel: a binary get batch (GETQ ... closed by GET, or by NOOP) is
// sent and nothing after it; the client then simply waits.  Every value the
// batch is owed (one per hit, one not-found for a closing GET that misses, the
// no-op reply) must arrive without the client having to send anything else --
// a reply that only comes out in front of the answer to the next request was
// withheld.  Keys are hot (in L1 and L2), cold (L2 only, evicted from L1) or
// absent, so that the orchestrators answer out of request order.
func TestC08NoSentinel(t *testing.T) {
	rec := evid.For("C08")
	rapid.Check(t, func(t *rapid.T) {
		shape := rapid.SampledFrom([]string{"l1l2", "l1l2+batch", "l1only"}).Draw(t, "shape")
		lock := rapid.SampledFrom([]string{"nolock", "nolock", "lock1r", "lockNr"}).Draw(t, "lock")
		cfg := stack.Config{Shape: shape, Lock: lock, L1: rapid.SampledFrom([]string{"std", "std", "chunked", "batched"}).Draw(t, "l1"), L2: "std"}
		if shape == "l1only" {
			cfg.L2 = "-"
		}
		if lock != "nolock" && cfg.L1 == "chunked" {
			cfg.Lock = "lock1r"
		}
		port := 0
		if shape == "l1l2+batch" {
			port = rapid.IntRange(0, 1).Draw(t, "port")
		}
		st := stack.Get(cfg)
		st.Reset()
		keys := []string{"h1", "h2", "c1", "c2", "a1", "a2"}
		state := map[string]string{} // key -> hot | cold | absent
		setup := wire.NewClient(st.Dial(0), true)
		for _, k := range keys {
			kind := rapid.SampledFrom([]string{"hot", "cold", "absent"}).Draw(t, "state-"+k)
			if st.L2 == nil && kind == "cold" {
				kind = "hot"
			}
			state[k] = kind
			if kind != "absent" {
				if o, err := setup.Do(wire.Cmd{Kind: wire.Set, Key: k, Value: []byte("value-of-" + k), Flags: 11}); err != nil || o.Class != wire.OK {
					undecided(t, rec, fmt.Sprintf("C08 no-sentinel %s: setup set failed: %v %s", cfg, err, o))
				}
			}
		}
		setup.Close()
		for _, k := range keys {
			if state[k] == "cold" {
				if cfg.L1 == "chunked" {
					st.L1.Evict(k+"-meta", k+"-0")
				} else {
					st.L1.Evict(k)
				}
			}
		}
		n := rapid.IntRange(2, 6).Draw(t, "nkeys")
		c := wire.Cmd{Kind: wire.Get, Opaque: 0x7000, NoopEnd: rapid.IntRange(0, 3).Draw(t, "noopEnd") == 0}
		for i := 0; i < n; i++ {
			c.Keys = append(c.Keys, rapid.SampledFrom(keys).Draw(t, "key"))
		}
		want := map[uint32]string{} // opaque -> expected frame
		for i, k := range c.Keys {
			last := i == n-1 && !c.NoopEnd
			if state[k] != "absent" {
				want[c.Opaque+uint32(i)] = "hit:" + k
			} else if last {
				want[c.Opaque+uint32(i)] = "miss"
			}
		}
		if c.NoopEnd {
			want[c.Opaque+uint32(n)] = "noop"
		}
		conn := st.Dial(port)
		defer conn.Close()
		if _, err := conn.Write(wire.EncodeBinary(c)); err != nil {
			undecided(t, rec, fmt.Sprintf("C08 no-sentinel %s: write: %v", cfg, err))
		}
		r := bufio.NewReader(conn)
		got := map[uint32]string{}
		describe := func() string {
			var parts []string
			for i, k := range c.Keys {
				parts = append(parts, fmt.Sprintf("%s(%s)", k, state[k]))
				_ = i
			}
			return fmt.Sprintf("%s port %d, batch closed by %s, keys %s", cfg, port, map[bool]string{true: "NOOP", false: "GET"}[c.NoopEnd], strings.Join(parts, " "))
		}
		read := func(limit time.Duration) string {
			for len(got) < len(want) {
				conn.SetReadDeadline(time.Now().Add(limit))
				rep, err := wire.ReadBinReply(r)
				if err != nil {
					if isNetTimeout(err) {
						return "timeout"
					}
					t.Fatalf("C08 no-sentinel %s: connection failed while %d of %d reply frames were outstanding: %v", describe(), len(want)-len(got), len(want), err)
				}
				w, ok := want[rep.Opaque]
				if !ok {
					t.Fatalf("C08 no-sentinel %s: unexpected reply frame %s", describe(), rep)
				}
				if _, dup := got[rep.Opaque]; dup {
					t.Fatalf("C08 no-sentinel %s: second reply frame for opaque %#x: %s", describe(), rep.Opaque, rep)
				}
				var is string
				switch {
				case rep.Opcode == 0x0a && rep.Status == 0:
					is = "noop"
				case rep.Status == 1:
					is = "miss"
				case rep.Status == 0:
					is = "hit:" + strings.TrimPrefix(string(rep.Value), "value-of-")
				default:
					is = rep.String()
				}
				if is != w {
					t.Fatalf("C08 no-sentinel %s: opaque %#x answered %s, expected %s", describe(), rep.Opaque, is, w)
				}
				got[rep.Opaque] = is
			}
			return ""
		}
		if read(hangBound()/2) == "timeout" {
			// owed frames did not come: does the next request shake them loose?
			missing := len(want) - len(got)
			conn.Write(wire.EncodeBinary(wire.Cmd{Kind: wire.Noop, Opaque: 0x7fff}))
			want[0x7fff] = "noop"
			if read(10*time.Second) == "" {
				noteHang()
				t.Fatalf("C08 no-sentinel %s: %d of the batch's reply frames were withheld until the client sent its next request (they arrived in front of that request's reply)", describe(), missing)
			}
			noteHang()
			t.Fatalf("C08 no-sentinel %s: %d reply frames never arrived (got %v, owed %v)", describe(), len(want)-len(got), got, want)
		}
		cold, hot := 0, 0
		for _, k := range c.Keys {
			switch state[k] {
			case "cold":
				cold++
			case "hot":
				hot++
			}
		}
		nt := cold > 0 && hot > 0
		rec.Case(nt, fmt.Sprintf("nosent|%s|%d|%v|%v|%v", cfg, port, c.NoopEnd, c.Keys, state), "no-sentinel-get-batch")
		if rec.WantSample(nt) {
			rec.Sample(nt, map[string]interface{}{"config": cfg.String(), "port": port, "closed_by_noop": c.NoopEnd, "keys": c.Keys, "key_states": state})
		}
	})
}

func isNetTimeout(err error) bool {
	type timeout interface{ Timeout() bool }
	te, ok := err.(timeout)
	return ok && te.Timeout()
}
