package props

import (
	"bufio"
	"bytes"
	"encoding/binary"
	"fmt"
	"io"
	"net"
	"runtime"
	"strings"
	"testing"
	"time"

	"github.com/netflix/rend/common"
	"pgregory.net/rapid"

	"verifharness/evid"
	"verifharness/stack"
	"verifharness/wire"
)

// parseAll runs Parse in a loop over input until it returns an error and
// reports what happened, call by call.
type callRec struct {
	Off   int    // stream offset at which this Parse call started
	Used  int    // bytes it consumed (delivered minus still buffered)
	Alloc uint64 // bytes allocated during the call
	Stack uint64 // growth of the memory in use for goroutine stacks during the call
	Err   string
}

type parseReport struct {
	Panic     string
	Calls     int
	NoProg    bool   // a successful Parse consumed nothing
	FirstErr  string // error of the first Parse ("" = success)
	FirstUsed int
	FirstAllc uint64
	TotalAllc uint64
	RunStack  uint64 // growth of stack memory over the whole run
	LastErr   string
	Recs      []callRec `json:"-"`
}

// measureAlloc switches the per-call allocation measurement (two stop-the-world
// ReadMemStats per Parse call) off where throughput matters (native fuzzing).
var measureAlloc = true

// stackConst bounds the growth of stack memory during one Parse call (the
// parsers have no business recursing on input); generous, because stacks of
// unrelated harness goroutines are counted as well.
const stackConst = 1 << 20

func parseAll(binary bool, input []byte) (rep parseReport) {
	sr := &segReader{data: input}
	br := bufio.NewReaderSize(sr, 4096)
	p := newParser(binary, br)
	var m0, m1 runtime.MemStats
	defer func() {
		if r := recover(); r != nil {
			rep.Panic = fmt.Sprint(r)
		}
	}()
	used := 0
	var start runtime.MemStats
	if measureAlloc {
		runtime.ReadMemStats(&start)
		defer func() {
			// stack growth over the whole run (per-call measurement stops after 64 calls)
			var end runtime.MemStats
			runtime.ReadMemStats(&end)
			if end.StackInuse > start.StackInuse {
				rep.RunStack = end.StackInuse - start.StackInuse
			}
		}()
	}
	for {
		per := measureAlloc && rep.Calls < 64
		if per {
			runtime.ReadMemStats(&m0)
		}
		_, _, _, err := p.Parse()
		if per {
			runtime.ReadMemStats(&m1)
		}
		rep.Calls++
		now := sr.consumed - br.Buffered()
		rec := callRec{Off: used, Used: now - used}
		if per {
			rec.Alloc = m1.TotalAlloc - m0.TotalAlloc
			if m1.StackInuse > m0.StackInuse {
				rec.Stack = m1.StackInuse - m0.StackInuse
			}
		}
		if err != nil {
			rec.Err = err.Error()
		}
		if len(rep.Recs) < 64 {
			rep.Recs = append(rep.Recs, rec)
		}
		rep.TotalAllc += rec.Alloc
		if rep.Calls == 1 {
			rep.FirstAllc, rep.FirstUsed, rep.FirstErr = rec.Alloc, rec.Used, rec.Err
		}
		if err != nil && !(err == common.ErrBadRequest || err == common.ErrBadLength || err == common.ErrBadFlags || err == common.ErrBadExptime) {
			rep.LastErr = err.Error()
			break
		}
		// success, or an error class after which the server loop carries on
		// parsing: either way the call must have consumed input
		if now <= used {
			rep.NoProg = true
			break
		}
		used = now
		if rep.Calls > len(input)+2 {
			rep.NoProg = true
			break
		}
	}
	return rep
}

// allocProblem checks every Parse call's allocation against what the frame
// that starts at the call's offset consistently declares.
func allocProblem(binary bool, input []byte, rep parseReport) string {
	if rep.RunStack > stackConst {
		return fmt.Sprintf("decoding %d bytes in %d Parse calls grew the goroutine stacks by %d bytes; decoding needs constant stack (bound %d)", len(input), rep.Calls, rep.RunStack, stackConst)
	}
	for i, r := range rep.Recs {
		var declared uint64
		rest := input[min(r.Off, len(input)):]
		if binary {
			if kl, el, total, ok := declaredBinary(rest); ok {
				if total >= uint64(kl+el) {
					declared = total
				} else {
					declared = uint64(kl + el)
				}
			}
		} else {
			line := string(rest)
			if nl := strings.IndexByte(line, '\n'); nl >= 0 {
				line = line[:nl]
			}
			declared = textDeclared([]byte(line))
		}
		// constant + 2 x declared + k x bytes actually consumed by the call + one 64KiB key buffer.
		// k = 3 for binary frames; a text line is tokenised, and a token of one byte
		// costs a string header, a slice header and a small allocation (about 48
		// bytes per two bytes of line for "get a a a ..."), hence k = 40 there.
		k := uint64(3)
		if !binary {
			k = 40
		}
		bound := uint64(allocConst) + 2*declared + k*uint64(r.Used) + 65536
		if r.Stack > stackConst {
			return fmt.Sprintf("Parse call %d (stream offset %d, consumed %d) grew the goroutine stacks by %d bytes; decoding needs constant stack (bound %d)", i, r.Off, r.Used, r.Stack, stackConst)
		}
		if r.Alloc > bound {
			return fmt.Sprintf("Parse call %d (stream offset %d, consumed %d) allocated %d bytes; bound is %d (64KiB + 2 x %d declared + %d x consumed + 64KiB)", i, r.Off, r.Used, r.Alloc, bound, declared, k)
		}
	}
	return ""
}

func binHeader(opcode byte, keyLen uint16, extLen byte, total uint32, opaque uint32) []byte {
	h := make([]byte, 24)
	h[0] = 0x80
	h[1] = opcode
	binary.BigEndian.PutUint16(h[2:4], keyLen)
	h[4] = extLen
	binary.BigEndian.PutUint32(h[8:12], total)
	binary.BigEndian.PutUint32(h[12:16], opaque)
	return h
}

var validTrailer = func() []byte {
	var b []byte
	i := uint32(0)
	for len(b) < 64<<10 {
		b = append(b, wire.EncodeBinary(wire.Cmd{Kind: wire.Set, Key: fmt.Sprintf("tk%d", i), Value: mkValue(i, 700), Opaque: i})...)
		i++
	}
	return b
}()

func isSetFamily(op int) bool {
	switch op {
	case 0x01, 0x02, 0x03, 0x0e, 0x0f, 0x11, 0x12, 0x13, 0x19, 0x1a:
		return true
	}
	return false
}

const allocConst = 64 << 10

// judgeBinary applies the C11 parser-level oracle to one binary input whose
// first 24 bytes are a header with the given fields.
func judgeBinary(rep parseReport, keyLen, extLen int, total uint64, inputLen int) string {
	if rep.Panic != "" {
		return "parser panicked: " + rep.Panic
	}
	if rep.NoProg {
		return fmt.Sprintf("Parse succeeded without consuming input (after %d calls): it would spin", rep.Calls)
	}
	return ""
}

// contradictoryProblem judges the first Parse call on a header whose total body
// is shorter than key plus extras.  A store must be rejected having consumed no
// more than header+extras+key.  For the other opcodes the parser reads what the
// opcode's fixed layout dictates (a touch always has four bytes of extras, a
// quiet get drags the next request of its batch along), which is a constant; a
// body length derived from the contradiction (2^32 minus something) would
// swallow the whole trailer, and that is what must not happen.
func contradictoryProblem(setFamily bool, rep parseReport, kl, el int) string {
	switch {
	case setFamily && rep.FirstErr == "":
		return "contradictory frame was accepted"
	case setFamily && rep.FirstUsed > 24+kl+el:
		return fmt.Sprintf("contradictory frame: Parse consumed %d bytes, more than header+extras+key = %d", rep.FirstUsed, 24+kl+el)
	case !setFamily && rep.FirstUsed > 24+kl+el+1024:
		return fmt.Sprintf("contradictory frame: Parse consumed %d bytes, more than header+extras+key = %d plus a constant (1024): it reads on for a body length the header cannot mean", rep.FirstUsed, 24+kl+el)
	}
	return ""
}

// TestC11Grid: exhaustive header grid, each alone and followed by a 64 KiB
// trailer of valid requests.
func TestC11Grid(t *testing.T) {
	rec := evid.For("C11")
	shard, shards := evid.Shard()
	keyLens := []int{0, 1, 2, 250, 65535}
	extLens := []int{0, 4, 8, 255}
	cases := 0
	for op := 0; op < 256; op++ {
		if op%shards != shard {
			continue
		}
		for _, kl := range keyLens {
			for _, el := range extLens {
				totals := []uint64{uint64(kl + el)}
				for v := uint64(0); v <= 16; v++ {
					totals = append(totals, v)
				}
				if kl+el > 0 {
					totals = append(totals, uint64(kl+el-1))
				}
				if isSetFamily(op) {
					totals = append(totals, 1<<24) // consistently declared large body (4 GiB would be allowed but is not worth executing)
				} else {
					totals = append(totals, 1<<32-1)
				}
				for _, total := range totals {
					for _, withTrailer := range []bool{false, true} {
						in := binHeader(byte(op), uint16(kl), byte(el), uint32(total), 7)
						if withTrailer {
							in = append(in, validTrailer...)
						}
						rep := parseAll(true, in)
						cases++
						msg := judgeBinary(rep, kl, el, total, len(in))
						if msg == "" {
							msg = allocProblem(true, in, rep)
						}
						contradictory := total < uint64(kl+el)
						if msg == "" && contradictory {
							// must be rejected (set family) without waiting for, or swallowing, the
							// trailer (every opcode: whatever the parser makes of such a header, a
							// body length derived from the contradiction must not be waited for)
							if msg = contradictoryProblem(isSetFamily(op), rep, kl, el); msg != "" {
								msg += fmt.Sprintf(" (the trailer is %d bytes of valid requests)", len(in)-24)
							}
						}
						nt := contradictory || (rep.FirstErr != "" && rep.FirstErr != "EOF")
						rec.Case(nt, fmt.Sprintf("grid|%d|%d|%d|%d|%v", op, kl, el, total, withTrailer), "grid")
						if msg != "" {
							c := map[string]interface{}{"opcode": op, "keylen": kl, "extlen": el, "total": total, "trailer": withTrailer, "report": rep}
							p := rec.Violation("TestC11Replay", map[string]interface{}{"binary": true, "hex": fmt.Sprintf("%x", in[:24]), "trailer": withTrailer, "grid": c})
							t.Fatalf("C11 grid opcode=%#x keylen=%d extlen=%d total=%d trailer=%v: %s (report %+v); replay %s", op, kl, el, total, withTrailer, msg, rep, p)
						}
						if withTrailer && nt && rec.WantSample(true) {
							rec.Sample(true, map[string]interface{}{"header_hex": fmt.Sprintf("%x", in[:24]), "trailer_bytes": len(validTrailer), "first_error": rep.FirstErr, "first_consumed": rep.FirstUsed, "first_alloc": rep.FirstAllc})
						}
					}
				}
			}
		}
	}
	rec.MarkExhaustive("binary header grid: opcode 0..255 x keylen {0,1,2,250,65535} x extras {0,4,8,255} x total {0..16, key+extras-1, key+extras, large}, alone and with 64KiB valid trailer")
	rec.ClassN("grid-cases", int64(cases))
}

// mutate applies one drawn mutation to a valid encoded request stream.
func mutate(t *rapid.T, isBin bool, in []byte) ([]byte, string) {
	out := append([]byte(nil), in...)
	kind := rapid.SampledFrom([]string{"bitflip", "truncate", "lenfield", "textnum", "insert", "dup"}).Draw(t, "mutation")
	switch kind {
	case "bitflip":
		n := rapid.IntRange(1, 3).Draw(t, "flips")
		for i := 0; i < n; i++ {
			pos := rapid.IntRange(0, len(out)-1).Draw(t, "pos")
			if pos < 64 || rapid.Bool().Draw(t, "deep") {
				out[pos] ^= 1 << uint(rapid.IntRange(0, 7).Draw(t, "bit"))
			} else {
				out[pos%64] ^= 1 << uint(rapid.IntRange(0, 7).Draw(t, "bit"))
			}
		}
	case "truncate":
		out = out[:rapid.IntRange(0, len(out)-1).Draw(t, "cut")]
	case "lenfield":
		if isBin && len(out) >= 24 {
			switch rapid.IntRange(0, 2).Draw(t, "field") {
			case 0:
				binary_put16(out[2:4], uint16(rapid.SampledFrom([]int{0, 1, 250, 251, 65535, int(binary_get16(out[2:4])) + 1, int(binary_get16(out[2:4])) - 1}).Draw(t, "klen")))
			case 1:
				out[4] = byte(rapid.SampledFrom([]int{0, 1, 4, 8, 9, 255}).Draw(t, "elen"))
			case 2:
				old := binary.BigEndian.Uint32(out[8:12])
				binary.BigEndian.PutUint32(out[8:12], rapid.SampledFrom([]uint32{0, 1, old - 1, old + 1, old / 2, 1 << 24, 0xffffffff - uint32(b2i(isSetFamily(int(out[1]))))*0xfeffffff}).Draw(t, "total"))
			}
		} else {
			kind = "textnum"
			fallthrough_textnum(t, &out)
		}
	case "textnum":
		fallthrough_textnum(t, &out)
	case "insert":
		pos := rapid.IntRange(0, len(out)).Draw(t, "pos")
		junk := rapid.SliceOfN(rapid.Byte(), 1, 8).Draw(t, "junk")
		out = append(out[:pos:pos], append(junk, out[pos:]...)...)
	case "dup":
		pos := rapid.IntRange(0, len(out)-1).Draw(t, "pos")
		out = append(out[:pos:pos], append([]byte{out[pos]}, out[pos:]...)...)
	}
	return out, kind
}

func b2i(b bool) int {
	if b {
		return 1
	}
	return 0
}
func binary_put16(b []byte, v uint16) { binary.BigEndian.PutUint16(b, v) }
func binary_get16(b []byte) uint16    { return binary.BigEndian.Uint16(b) }

// fallthrough_textnum replaces one space-separated token of the first line by a hostile number.
func fallthrough_textnum(t *rapid.T, out *[]byte) {
	s := string(*out)
	nl := strings.Index(s, "\n")
	if nl < 0 {
		return
	}
	line, rest := strings.TrimRight(s[:nl], "\r"), s[nl:]
	parts := strings.Split(line, " ")
	if len(parts) < 2 {
		return
	}
	i := rapid.IntRange(1, len(parts)-1).Draw(t, "token")
	parts[i] = rapid.SampledFrom([]string{"-1", "abc", "", "99999999999", "18446744073709551616", "4294967296", "16777216", "0x10", "1e3", " ", "+5", "00000000000000000000001"}).Draw(t, "hostile")
	*out = []byte(strings.Join(parts, " ") + "\r" + rest)
}

// hugeDeclaration reports whether some frame of the input (walking binary
// frames by their declared totals, or any text storage line) consistently
// declares a body above 16 MiB.  Such inputs are legitimate requests for a lot
// of memory: the property allows the allocation, and executing many of them
// only makes the run slow and memory hungry, so they are not executed.
func hugeDeclaration(binary bool, in []byte) bool {
	const limit = 16 << 20
	if !binary {
		return textDeclared(in) > limit
	}
	// Walk the frames the way the binary parser consumes them (this mirrors the
	// implementation, which is fine here: it only decides what is worth
	// executing, never what is correct).
	off := 0
	for steps := 0; steps < 256 && off+24 <= len(in); steps++ {
		if in[off] != 0x80 {
			return false
		}
		kl, el, total, _ := declaredBinary(in[off:])
		switch op := int(in[off+1]); {
		case isSetFamily(op):
			if total < uint64(kl+el) {
				return false // rejected before anything is read
			}
			data := total - uint64(el) - uint64(kl)
			if op == 0x0e || op == 0x0f || op == 0x19 || op == 0x1a {
				data = total - uint64(kl)
				if data > limit {
					return true
				}
				off += 24 + kl + int(data)
			} else {
				if data > limit {
					return true
				}
				off += 24 + 8 + kl + int(data)
			}
		case op == 0x00 || op == 0x09 || op == 0x40 || op == 0x41 || op == 0x04:
			off += 24 + kl
		case op == 0x1c || op == 0x1d:
			off += 24 + 4 + kl
		case op == 0x0a || op == 0x07 || op == 0x17 || op == 0x0b || op == 0x10:
			off += 24
		default:
			return hugeAnywhere(in)
		}
	}
	return hugeAnywhere(in)
}

// hugeAnywhere: after a frame the parser rejects it may resynchronise at
// offsets the walk above does not predict; be conservative and look at every
// offset that could be taken for the start of a store frame.
func hugeAnywhere(in []byte) bool {
	const limit = 16 << 20
	for off := 0; off+24 <= len(in); off++ {
		if in[off] != 0x80 || !isSetFamily(int(in[off+1])) {
			continue
		}
		kl, el, total, _ := declaredBinary(in[off:])
		if total >= uint64(kl+el) && total-uint64(kl) > limit {
			return true
		}
	}
	return false
}

func binary_get32(b []byte) uint32 { return binary.BigEndian.Uint32(b) }

// declaredOf returns what the (possibly mutated) first frame consistently declares.
func declaredBinary(in []byte) (keyLen, extLen int, total uint64, ok bool) {
	if len(in) < 24 || in[0] != 0x80 {
		return 0, 0, 0, false
	}
	return int(binary.BigEndian.Uint16(in[2:4])), int(in[4]), uint64(binary.BigEndian.Uint32(in[8:12])), true
}

// contradictoryFirst: the first frame is a set-family frame whose total is
// below key+extras (must be rejected cheaply whatever else it declares).
func contradictoryFirst(binary bool, in []byte) bool {
	if !binary {
		return false
	}
	kl, el, total, ok := declaredBinary(in)
	return ok && total < uint64(kl+el)
}

func TestC11Mutations(t *testing.T) {
	rec := evid.For("C11")
	rapid.Check(t, func(t *rapid.T) {
		bin := rapid.Bool().Draw(t, "binary")
		n := rapid.IntRange(1, 3).Draw(t, "pipeline")
		var stream []byte
		var cmds []wire.Cmd
		for i := 0; i < n; i++ {
			c := genWireCmd(t, bin)
			if len(c.Value) > 5000 {
				c.Value = c.Value[:5000]
			}
			cmds = append(cmds, c)
			stream = append(stream, encodeCmd(bin, c)...)
		}
		in, kind := mutate(t, bin, stream)
		if hugeDeclaration(bin, in) && !contradictoryFirst(bin, in) {
			rec.Class("skipped-huge-consistent-declaration")
			return
		}
		rep := parseAll(bin, in)
		msg := ""
		switch {
		case rep.Panic != "":
			msg = "parser panicked: " + rep.Panic
		case rep.NoProg:
			msg = fmt.Sprintf("Parse succeeded without consuming input (call %d): it would spin", rep.Calls)
		default:
			msg = allocProblem(bin, in, rep)
		}
		if msg != "" {
			t.Fatalf("C11 mutation %s binary=%v input %d bytes %x…: %s (report %+v)\noriginal pipeline: %s", kind, bin, len(in), in[:min(len(in), 48)], msg, rep, strings.Join(cmdsString(cmds), " | "))
		}
		nt := rep.FirstErr != "" && !(rep.FirstErr == "EOF" && rep.FirstUsed == 0)
		if bin {
			if kl, el, total, ok := declaredBinary(in); ok && total < uint64(kl+el) {
				nt = true
			}
		}
		rec.Case(nt, fmt.Sprintf("mut|%v|%x", bin, evid.Hash(string(in))), "mutation:"+kind)
		if rec.WantSample(nt) && len(in) < 300 {
			rec.Sample(nt, map[string]interface{}{"binary": bin, "mutation": kind, "input_hex": fmt.Sprintf("%x", in), "first_error": rep.FirstErr, "calls": rep.Calls})
		}
	})
}

// TestC11Repetition feeds long runs of one short unit (blank lines, lone CRs,
// spaces, bare command words, no-op headers, random short strings), optionally
// followed by a valid request: decoding must terminate, make progress, and
// need neither heap nor stack in proportion to the length of the run.
func TestC11Repetition(t *testing.T) {
	rec := evid.For("C11")
	units := [][]byte{[]byte("\n"), []byte("\r\n"), []byte(" \r\n"), []byte("\r"), []byte(" "), []byte("\x00"), []byte("get\r\n"), []byte("get \r\n"), []byte("x\n"),
		[]byte("set k 0 0 0\r\n\r\n"), binHeader(0x0a, 0, 0, 0, 1), binHeader(0x0d, 0, 0, 0, 1), []byte("\x80"), []byte("\x80\x0a"), []byte("quit"), []byte("\t\n")}
	rapid.Check(t, func(t *rapid.T) {
		var unit []byte
		if rapid.IntRange(0, 3).Draw(t, "randomUnit") == 0 {
			unit = rapid.SliceOfN(rapid.SampledFrom([]byte{'\r', '\n', ' ', 0, 0x80, 'g', 'e', 't', '0', '1', 0xff, 0x0a}), 1, 6).Draw(t, "unit")
		} else {
			unit = units[rapid.IntRange(0, len(units)-1).Draw(t, "unitIdx")]
		}
		count := rapid.SampledFrom([]int{300, 2000, 20000, 60000}).Draw(t, "count")
		bin := unit[0] == 0x80
		if rapid.IntRange(0, 4).Draw(t, "forceOther") == 0 {
			bin = !bin
		}
		in := bytes.Repeat(unit, count)
		if rapid.Bool().Draw(t, "trailer") {
			in = append(in, encodeCmd(bin, wire.Cmd{Kind: wire.Get, Keys: []string{"k"}, Opaque: 5})...)
		}
		if hugeDeclaration(bin, in) && !contradictoryFirst(bin, in) {
			rec.Class("skipped-huge-consistent-declaration")
			return
		}
		rep := parseAll(bin, in)
		msg := ""
		switch {
		case rep.Panic != "":
			msg = "parser panicked: " + rep.Panic
		case rep.NoProg:
			msg = fmt.Sprintf("Parse succeeded without consuming input (call %d): it would spin", rep.Calls)
		default:
			msg = allocProblem(bin, in, rep)
		}
		if msg != "" {
			t.Fatalf("C11 repetition: unit %q x %d (%d bytes) parsed as binary=%v: %s (report %+v)", unit, count, len(in), bin, msg, rep)
		}
		rec.Case(true, fmt.Sprintf("rep|%v|%x|%d", bin, unit, count), "repetition")
		if rec.WantSample(true) {
			rec.Sample(true, map[string]interface{}{"binary_parser": bin, "unit_hex": fmt.Sprintf("%x", unit), "repeated": count, "parse_calls": rep.Calls, "first_error": rep.FirstErr})
		}
	})
}

// textDeclared sums the length fields that set-family lines in the input declare.
func textDeclared(in []byte) uint64 {
	var sum uint64
	for _, line := range strings.Split(string(in), "\n") {
		parts := strings.Split(strings.TrimSpace(line), " ")
		if len(parts) == 5 {
			var v uint64
			if _, err := fmt.Sscanf(parts[4], "%d", &v); err == nil && v < 1<<32 {
				sum += v
			}
		}
	}
	return sum
}

// TestC11Server sends hostile byte strings to a real stack: the connection
// must be answered with an error or closed, promptly, and a fresh connection
// must then be served correctly.
func TestC11Server(t *testing.T) {
	rec := evid.For("C11")
	rapid.Check(t, func(t *rapid.T) {
		sc := genStackCase(t, []string{"std", "std", "chunked", "batched"})
		sc.Binary = rapid.Bool().Draw(t, "binaryInput")
		// the cluster proxy's shape: there the key of a request decides which code
		// path (which node, which ring arc) serves it, so keys vary
		variedKeys := false
		if rapid.IntRange(0, 5).Draw(t, "clusterShape") == 0 {
			sc.Cfg = stack.Config{Shape: "l1only", Lock: "nolock", L1: "cluster", L2: "-"}
			variedKeys = true
		}
		st := stack.Get(sc.Cfg)
		st.Reset()
		var in []byte
		kind := ""
		source := rapid.IntRange(0, 4).Draw(t, "source")
		if variedKeys && rapid.Bool().Draw(t, "manyKeys") {
			source = 5
		}
		switch source {
		case 5: // well-formed requests for many different keys (every ring arc of the cluster shape)
			var stream []byte
			base := rapid.IntRange(0, 1<<20).Draw(t, "keyBase")
			for i := 0; i < 64; i++ {
				k := fmt.Sprintf("key-%d", base+i)
				c := wire.Cmd{Kind: wire.Get, Keys: []string{k}, Opaque: uint32(i + 1)}
				if i%4 == 3 {
					c = wire.Cmd{Kind: wire.Set, Key: k, Value: []byte("v"), Opaque: uint32(i + 1)}
				}
				stream = append(stream, encodeCmd(sc.Binary, c)...)
			}
			in, kind = stream, "many-keys"
		case 4: // consistent frames whose key is longer than memcached's 250 bytes
			var stream []byte
			for i := 0; i < rapid.IntRange(1, 3).Draw(t, "pipeline"); i++ {
				c := genWireCmd(t, sc.Binary)
				if len(c.Value) > 3000 {
					c.Value = c.Value[:3000]
				}
				if c.Kind == wire.Quit {
					c.Kind = wire.Noop
				}
				longLens := []int{251, 252, 255, 256, 300, 1200, 65535}
				if !sc.Binary {
					longLens = append(longLens, 65536, 65537, 70000) // only a text line can carry a key that no 16-bit length field describes
				}
				long := strings.Repeat("L", rapid.SampledFrom(longLens).Draw(t, "longKey"))
				if len(c.Key) > 0 {
					c.Key = long
				}
				for j := range c.Keys {
					if j%2 == 0 {
						c.Keys[j] = long
					}
				}
				stream = append(stream, encodeCmd(sc.Binary, c)...)
			}
			in, kind = stream, "oversize-key"
		case 0: // grid-like header, optionally with trailer
			op := byte(rapid.IntRange(0, 255).Draw(t, "op"))
			kl := rapid.SampledFrom([]int{0, 1, 2, 250, 65535}).Draw(t, "kl")
			el := rapid.SampledFrom([]int{0, 4, 8, 255}).Draw(t, "el")
			total := rapid.SampledFrom([]uint32{0, 1, 7, 8, 9, 16, uint32(kl + el), uint32(kl+el) - 1, 1 << 24}).Draw(t, "total")
			in = binHeader(op, uint16(kl), byte(el), total, 9)
			if rapid.Bool().Draw(t, "trailer") {
				in = append(in, validTrailer[:8192]...)
			}
			kind = "header"
		case 1, 2:
			var stream []byte
			for i := 0; i < rapid.IntRange(1, 3).Draw(t, "pipeline"); i++ {
				c := genWireCmd(t, sc.Binary)
				if len(c.Value) > 3000 {
					c.Value = c.Value[:3000]
				}
				if c.Kind == wire.Quit {
					c.Kind = wire.Noop
				}
				if len(c.Key) > 0 {
					c.Key = "k"
					if variedKeys {
						c.Key = fmt.Sprintf("k%d", rapid.IntRange(0, 4095).Draw(t, "keyNo"))
					}
				}
				for j := range c.Keys {
					if variedKeys {
						c.Keys[j] = fmt.Sprintf("k%d", rapid.IntRange(0, 4095).Draw(t, "keyNo"))
					}
				}
				stream = append(stream, encodeCmd(sc.Binary, c)...)
			}
			in, kind = mutate(t, sc.Binary, stream)
			kind = "mutation:" + kind
		case 3:
			in = rapid.SliceOfN(rapid.Byte(), 1, 200).Draw(t, "random")
			kind = "random"
		}
		if hugeDeclaration(true, in) || hugeDeclaration(false, in) {
			rec.Class("skipped-huge-consistent-declaration")
			return
		}
		conn := st.Dial(0)
		bound := hangBound()
		conn.SetDeadline(time.Now().Add(bound))
		done := make(chan struct{})
		go func() {
			conn.Write(in)
			if uc, ok := conn.(*net.UnixConn); ok {
				uc.CloseWrite()
			}
			close(done)
		}()
		reply, err := io.ReadAll(conn)
		<-done
		conn.Close()
		if ne, ok := err.(net.Error); err != nil && ok && ne.Timeout() {
			noteHang()
			var dump [1 << 16]byte
			n := runtime.Stack(dump[:], true)
			t.Fatalf("C11 server %s %s input %d bytes %x…: connection neither answered-and-closed nor closed within the bound (60s for the first suspected hang of a process) after the client finished sending (%v); %d reply bytes; goroutines:\n%s", sc.Cfg, kind, len(in), in[:min(len(in), 48)], err, len(reply), dump[:n])
		}
		// a fresh connection is served correctly
		cl := wire.NewClient(st.Dial(0), true)
		val := mkValue(uint32(len(in)), 40)
		o1, e1 := cl.Do(wire.Cmd{Kind: wire.Set, Key: "fresh", Value: val, Flags: 5})
		o2, e2 := cl.Do(wire.Cmd{Kind: wire.Get, Keys: []string{"fresh"}})
		cl.Close()
		if e1 != nil || e2 != nil || o1.Class != wire.OK || len(o2.Hits) != 1 || string(o2.Hits[0].Value) != string(val) || o2.Hits[0].Flags != 5 {
			t.Fatalf("C11 server %s %s input %x…: a fresh connection was not served correctly afterwards: %v %s / %v %s", sc.Cfg, kind, in[:min(len(in), 48)], e1, o1, e2, o2)
		}
		rec.Case(true, fmt.Sprintf("srv|%s|%x", sc.Cfg, evid.Hash(string(in))), "server:"+kind)
	})
}

// TestC11FirstBytes: what decides a connection's protocol is looked at before
// any parser runs.  Exhaustively: every first byte, alone and followed by one
// or two more bytes, then end of input.  The connection must be answered or
// closed, the process must survive, a fresh connection must be served.
func TestC11FirstBytes(t *testing.T) {
	rec := evid.For("C11")
	shard, shards := evid.Shard()
	cfgs := []stack.Config{
		{Shape: "l1only", Lock: "nolock", L1: "std", L2: "-"},
		{Shape: "l1l2+batch", Lock: "lockNr", L1: "std", L2: "std", Conc: 3},
	}
	tails := [][]byte{nil, {0x00}, {0x01}, {0x03}, {0x03, 0x00}, {0x03, 0x01}, {0x03, 0x04}, {0x03, 0x05}, {0xff}, {0xff, 0xff}, {'\r'}, {'\n'}, {'\r', '\n'}, {' '}}
	idx := 0
	for ci, cfg := range cfgs {
		st := stack.Get(cfg)
		for b := 0; b < 256; b++ {
			for ti, tail := range tails {
				idx++
				if idx%shards != shard {
					continue
				}
				in := append([]byte{byte(b)}, tail...)
				port := 0
				if cfg.Shape == "l1l2+batch" && (b+ti)%2 == 1 {
					port = 1
				}
				conn := st.Dial(port)
				conn.SetDeadline(time.Now().Add(hangBound()))
				conn.Write(in)
				if uc, ok := conn.(*net.UnixConn); ok {
					uc.CloseWrite()
				}
				_, err := io.ReadAll(conn)
				conn.Close()
				if ne, ok := err.(net.Error); err != nil && ok && ne.Timeout() {
					noteHang()
					p := rec.Violation("TestC11FirstBytes", map[string]interface{}{"config": cfg.String(), "input_hex": fmt.Sprintf("%x", in)})
					t.Fatalf("C11 first bytes %s: input %x then end of input: the connection was neither answered-and-closed nor closed within the bound; replay %s", cfg, in, p)
				}
				cl := wire.NewClient(st.Dial(0), true)
				cl.Timeout = hangBound()
				o, e := cl.Do(wire.Cmd{Kind: wire.Noop})
				cl.Close()
				if e != nil || o.Class != wire.OK {
					p := rec.Violation("TestC11FirstBytes", map[string]interface{}{"config": cfg.String(), "input_hex": fmt.Sprintf("%x", in)})
					t.Fatalf("C11 first bytes %s: after input %x then end of input a fresh connection is not served: %v %s; replay %s", cfg, in, e, o, p)
				}
				rec.Case(true, fmt.Sprintf("first|%d|%x", ci, in), "first-bytes")
			}
		}
	}
	rec.MarkExhaustive("every first byte 0..255 x 14 continuations of 0..2 bytes, then end of input, on two stack configurations")
	rec.Sample(true, map[string]interface{}{"first_bytes": 256, "continuations": len(tails)})
}

// TestC11Replay re-executes a saved grid case.
func TestC11Replay(t *testing.T) {
	path := evid.ReplayFile()
	if path == "" {
		t.Skip("no replay file")
	}
	var c struct {
		Binary  bool   `json:"binary"`
		Hex     string `json:"hex"`
		Trailer bool   `json:"trailer"`
	}
	if _, err := evid.LoadReplay(path, &c); err != nil {
		t.Fatal(err)
	}
	var in []byte
	fmt.Sscanf(c.Hex, "%x", &in)
	if c.Trailer {
		in = append(in, validTrailer...)
	}
	rep := parseAll(c.Binary, in)
	kl, el, total, _ := declaredBinary(in)
	msg := judgeBinary(rep, kl, el, total, len(in))
	if msg == "" {
		msg = allocProblem(c.Binary, in, rep)
	}
	if msg == "" && total < uint64(kl+el) {
		msg = contradictoryProblem(isSetFamily(int(in[1])), rep, kl, el)
	}
	if msg != "" {
		t.Fatalf("C11 replay: %s (report %+v)", msg, rep)
	}
}
