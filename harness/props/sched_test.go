package props

import (
	"fmt"
	"reflect"
	"sync"
	"unsafe"

	"github.com/netflix/rend/common"
	"github.com/netflix/rend/orcas"
)

// ---------------------------------------------------------------------------
// A deterministic cooperative scheduler (DESIGN.md Appendix D).  Threads are
// goroutines that run only while they hold the baton; they park before every
// visible operation (a locker's Lock, a fake-handler call).  The controller
// computes the enabled set, asks the strategy for a choice and hands over.
// ---------------------------------------------------------------------------

type sthread struct {
	id      int
	wake    chan struct{}
	probe   func() bool // nil = always enabled
	done    bool
	panicV  interface{}
	held    int // lockers currently held through wrapped lockers
	maxHeld int
}

type Sched struct {
	threads    []*sthread
	current    int
	parked     chan int
	step       int
	trace      [][2]int // (choice index, number enabled)
	sched      []int    // prefix of choices; beyond it choose 0
	Deadlock   bool
	HarnessErr string
	switches   int
	last       int
	overlapOK  bool
}

func NewSched(prefix []int) *Sched {
	return &Sched{parked: make(chan int), sched: prefix, last: -1}
}

// Go registers a thread; it starts parked.
func (s *Sched) Go(f func(tid int)) int {
	t := &sthread{id: len(s.threads), wake: make(chan struct{})}
	s.threads = append(s.threads, t)
	go func() {
		<-t.wake
		defer func() {
			if r := recover(); r != nil {
				t.panicV = r
			}
			t.done = true
			s.parked <- t.id
		}()
		f(t.id)
	}()
	return t.id
}

// yield parks the current thread until it is scheduled again.
func (s *Sched) yield(probe func() bool) {
	t := s.threads[s.current]
	t.probe = probe
	s.parked <- t.id
	<-t.wake
	t.probe = nil
}

// Run drives all threads to completion (or deadlock).
func (s *Sched) Run() {
	for {
		var enabled []int
		alive := 0
		for _, t := range s.threads {
			if t.done {
				continue
			}
			alive++
			if t.probe == nil || t.probe() {
				enabled = append(enabled, t.id)
			}
		}
		if alive == 0 {
			return
		}
		if len(enabled) == 0 {
			s.Deadlock = true
			return
		}
		choice := 0
		if s.step < len(s.sched) {
			choice = s.sched[s.step] % len(enabled)
		}
		s.trace = append(s.trace, [2]int{choice, len(enabled)})
		s.step++
		tid := enabled[choice]
		if s.last >= 0 && tid != s.last {
			s.switches++
		}
		s.last = tid
		s.current = tid
		s.threads[tid].wake <- struct{}{}
		<-s.parked
	}
}

// NextPrefix returns the next DFS prefix after a run with the given trace, or
// nil when the space is exhausted.
func NextPrefix(trace [][2]int) []int {
	pos := len(trace) - 1
	for pos >= 0 && trace[pos][0]+1 >= trace[pos][1] {
		pos--
	}
	if pos < 0 {
		return nil
	}
	out := make([]int, 0, pos+1)
	for i := 0; i < pos; i++ {
		out = append(out, trace[i][0])
	}
	return append(out, trace[pos][0]+1)
}

// ---------- instrumented lockers ----------

// slocker wraps one entry of a lock table.  Lock = yield with a side-effect
// free probe, then TryLock/TryRLock on the real locker.
type slocker struct {
	s    **Sched // the scheduler of the current run
	try  func() bool
	unl  func()
	name string
	log  *[]string
}

func (l *slocker) Lock() {
	s := *l.s
	s.yield(func() bool {
		if l.try() {
			l.unl()
			return true
		}
		return false
	})
	if !l.try() {
		s.HarnessErr = "probe said " + l.name + " was free but TryLock failed"
		panic("harness: lock probe mismatch")
	}
	t := s.threads[s.current]
	t.held++
	if t.held > t.maxHeld {
		t.maxHeld = t.held
	}
}

func (l *slocker) Unlock() {
	s := *l.s
	s.threads[s.current].held--
	l.unl()
}

// wrapLocker builds the wrapper for whatever concrete locker the table holds:
// *sync.Mutex, *sync.RWMutex (write side) or the RLocker of a RWMutex.
func wrapLocker(cur **Sched, l sync.Locker, name string) sync.Locker {
	switch m := l.(type) {
	case *slocker:
		return m
	case *sync.Mutex:
		return &slocker{s: cur, try: m.TryLock, unl: m.Unlock, name: name}
	case *sync.RWMutex:
		return &slocker{s: cur, try: m.TryLock, unl: m.Unlock, name: name}
	}
	// RLocker(): a *sync.rlocker, which is a *sync.RWMutex in disguise
	v := reflect.ValueOf(l)
	if v.Kind() == reflect.Ptr && v.Type().String() == "*sync.rlocker" {
		rw := (*sync.RWMutex)(unsafe.Pointer(v.Pointer()))
		return &slocker{s: cur, try: rw.TryRLock, unl: rw.RUnlock, name: name + "(r)"}
	}
	panic(fmt.Sprintf("wrapLocker: unknown locker type %T", l))
}

// lockSet is a process-wide instrumented lock set.
type lockSet struct {
	slot  uint32
	cur   *Sched
	multi bool
	conc  uint8
}

var (
	lockSetsMu sync.Mutex
	lockSets   = map[[2]int]*lockSet{}
)

// getLockSet returns the instrumented lock set for (multi-reader?, concurrency).
// orcas.Locked can only be called ~1000 times per process, so sets are cached.
func getLockSet(multi bool, conc uint8) *lockSet {
	lockSetsMu.Lock()
	defer lockSetsMu.Unlock()
	k := [2]int{b2i(multi), int(conc)}
	if ls, ok := lockSets[k]; ok {
		return ls
	}
	_, slot := orcas.Locked(orcas.L1Only, multi, conc)
	ls := &lockSet{slot: slot, multi: multi, conc: conc}
	w, r := orcas.VerifLockTables(slot)
	// aliasing between the two tables must be preserved: wrap each distinct locker once
	seen := map[sync.Locker]sync.Locker{}
	for i := range w {
		if _, ok := seen[w[i]]; !ok {
			seen[w[i]] = wrapLocker(&ls.cur, w[i], fmt.Sprintf("w%d", i))
		}
	}
	for i := range r {
		if _, ok := seen[r[i]]; !ok {
			seen[r[i]] = wrapLocker(&ls.cur, r[i], fmt.Sprintf("r%d", i))
		}
	}
	for i := range w {
		w[i] = seen[w[i]]
	}
	for i := range r {
		r[i] = seen[r[i]]
	}
	lockSets[k] = ls
	return ls
}

// ---------- scheduler-aware fake handler (one tier) ----------

type tierItem struct {
	value []byte
	flags uint32
	exp   uint32 // the raw exptime last given for this entry (no clock: TTLs are compared as labels)
}

type tierStore struct {
	name  string
	s     **Sched
	m     map[string]tierItem
	calls int
	// fault injection (C12): at call number failAt (1-based) return failErr or panic
	failAt    int
	failErr   error
	failPanic bool
}

func newTier(name string, s **Sched) *tierStore {
	return &tierStore{name: name, s: s, m: map[string]tierItem{}}
}

// enter is the yield point before every backend call.
func (t *tierStore) enter() error {
	(*t.s).yield(nil)
	t.calls++
	if t.failAt > 0 && t.calls == t.failAt {
		if t.failPanic {
			panic("injected panic in " + t.name)
		}
		return t.failErr
	}
	return nil
}

func (t *tierStore) Set(c common.SetRequest) error {
	if err := t.enter(); err != nil {
		return err
	}
	t.m[string(c.Key)] = tierItem{append([]byte(nil), c.Data...), c.Flags, c.Exptime}
	return nil
}

func (t *tierStore) Add(c common.SetRequest) error {
	if err := t.enter(); err != nil {
		return err
	}
	if _, ok := t.m[string(c.Key)]; ok {
		return common.ErrKeyExists
	}
	t.m[string(c.Key)] = tierItem{append([]byte(nil), c.Data...), c.Flags, c.Exptime}
	return nil
}

func (t *tierStore) Replace(c common.SetRequest) error {
	if err := t.enter(); err != nil {
		return err
	}
	if _, ok := t.m[string(c.Key)]; !ok {
		return common.ErrKeyNotFound
	}
	t.m[string(c.Key)] = tierItem{append([]byte(nil), c.Data...), c.Flags, c.Exptime}
	return nil
}

func (t *tierStore) Append(c common.SetRequest) error {
	if err := t.enter(); err != nil {
		return err
	}
	it, ok := t.m[string(c.Key)]
	if !ok {
		return common.ErrItemNotStored
	}
	t.m[string(c.Key)] = tierItem{append(append([]byte(nil), it.value...), c.Data...), it.flags, it.exp}
	return nil
}

func (t *tierStore) Prepend(c common.SetRequest) error {
	if err := t.enter(); err != nil {
		return err
	}
	it, ok := t.m[string(c.Key)]
	if !ok {
		return common.ErrItemNotStored
	}
	t.m[string(c.Key)] = tierItem{append(append([]byte(nil), c.Data...), it.value...), it.flags, it.exp}
	return nil
}

func (t *tierStore) Delete(c common.DeleteRequest) error {
	if err := t.enter(); err != nil {
		return err
	}
	if _, ok := t.m[string(c.Key)]; !ok {
		return common.ErrKeyNotFound
	}
	delete(t.m, string(c.Key))
	return nil
}

func (t *tierStore) Touch(c common.TouchRequest) error {
	if err := t.enter(); err != nil {
		return err
	}
	it, ok := t.m[string(c.Key)]
	if !ok {
		return common.ErrKeyNotFound
	}
	it.exp = c.Exptime
	t.m[string(c.Key)] = it
	return nil
}

func (t *tierStore) GAT(c common.GATRequest) (common.GetResponse, error) {
	if err := t.enter(); err != nil {
		return common.GetResponse{}, err
	}
	it, ok := t.m[string(c.Key)]
	if !ok {
		return common.GetResponse{Miss: true, Key: c.Key, Opaque: c.Opaque}, nil
	}
	it.exp = c.Exptime
	t.m[string(c.Key)] = it
	return common.GetResponse{Key: c.Key, Opaque: c.Opaque, Data: it.value, Flags: it.flags}, nil
}

func (t *tierStore) Get(c common.GetRequest) (<-chan common.GetResponse, <-chan error) {
	rc := make(chan common.GetResponse, len(c.Keys))
	ec := make(chan error, 1)
	for i, k := range c.Keys {
		if err := t.enter(); err != nil {
			ec <- err
			break
		}
		it, ok := t.m[string(k)]
		rc <- common.GetResponse{Key: k, Opaque: c.Opaques[i], Quiet: c.Quiet[i], Miss: !ok, Data: it.value, Flags: it.flags}
	}
	close(rc)
	close(ec)
	return rc, ec
}

func (t *tierStore) GetE(c common.GetRequest) (<-chan common.GetEResponse, <-chan error) {
	rc := make(chan common.GetEResponse, len(c.Keys))
	ec := make(chan error, 1)
	for i, k := range c.Keys {
		if err := t.enter(); err != nil {
			ec <- err
			break
		}
		it, ok := t.m[string(k)]
		rc <- common.GetEResponse{Key: k, Opaque: c.Opaques[i], Quiet: c.Quiet[i], Miss: !ok, Data: it.value, Flags: it.flags, Exptime: it.exp}
	}
	close(rc)
	close(ec)
	return rc, ec
}

func (t *tierStore) Close() error { return nil }

// ---------- recording responder ----------

type recResponder struct {
	hits   []common.GetResponse
	misses int
	ends   int
	ok     bool // a success reply was written
	err    error
	// fault injection for C12
	calls     int
	failAt    int
	failPanic bool
	failErr   error
}

// reset clears what was recorded for the previous command (the fault plan and
// its call counter are kept).
func (r *recResponder) reset() {
	r.hits, r.misses, r.ends, r.ok, r.err = nil, 0, 0, false, nil
}

func (r *recResponder) hook() error {
	r.calls++
	if r.failAt > 0 && r.calls == r.failAt {
		if r.failPanic {
			panic("injected panic in responder")
		}
		return r.failErr
	}
	return nil
}

func (r *recResponder) mark() error {
	if err := r.hook(); err != nil {
		return err
	}
	r.ok = true
	return nil
}

func (r *recResponder) Set(opaque uint32, quiet bool) error     { return r.mark() }
func (r *recResponder) Add(opaque uint32, quiet bool) error     { return r.mark() }
func (r *recResponder) Replace(opaque uint32, quiet bool) error { return r.mark() }
func (r *recResponder) Append(opaque uint32, quiet bool) error  { return r.mark() }
func (r *recResponder) Prepend(opaque uint32, quiet bool) error { return r.mark() }
func (r *recResponder) Delete(opaque uint32) error              { return r.mark() }
func (r *recResponder) Touch(opaque uint32) error               { return r.mark() }
func (r *recResponder) Noop(opaque uint32) error                { return r.mark() }
func (r *recResponder) Quit(opaque uint32, quiet bool) error    { return r.mark() }
func (r *recResponder) Version(opaque uint32) error             { return r.mark() }
func (r *recResponder) Stat(opaque uint32) error                { return r.mark() }
func (r *recResponder) Get(g common.GetResponse) error {
	if err := r.hook(); err != nil {
		return err
	}
	if g.Miss {
		r.misses++
	} else {
		r.hits = append(r.hits, g)
	}
	return nil
}
func (r *recResponder) GetE(g common.GetEResponse) error {
	return r.Get(common.GetResponse{Key: g.Key, Data: g.Data, Flags: g.Flags, Miss: g.Miss, Opaque: g.Opaque, Quiet: g.Quiet})
}
func (r *recResponder) GAT(g common.GetResponse) error { return r.Get(g) }
func (r *recResponder) GetEnd(opaque uint32, noopEnd bool) error {
	if err := r.hook(); err != nil {
		return err
	}
	r.ends++
	return nil
}
func (r *recResponder) Error(opaque uint32, reqType common.RequestType, err error, quiet bool) error {
	r.err = err
	return nil
}
