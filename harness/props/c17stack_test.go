package props

import (
	"fmt"
	"strings"
	"sync"
	"sync/atomic"
	"testing"

	"verifharness/evid"
	"verifharness/stack"
	"verifharness/wire"
)

// parseGrown checks that v is <prepend tokens> seed <append tokens>, every
// token well formed, no token twice, each writer's tokens in the order it sent
// them; returns the number of tokens, or a description of what is wrong.
func parseGrown(v, seed string) (int, string) {
	at := strings.Index(v, seed)
	if at < 0 {
		return 0, "the seed value is gone"
	}
	seen := map[string]bool{}
	tokens := func(part string, what string, ascending bool) string {
		if len(part)%9 != 0 {
			return fmt.Sprintf("the %s part is %d bytes, not a whole number of 9-byte tokens", what, len(part))
		}
		last := map[byte]int{}
		for i := 0; i < len(part); i += 9 {
			tok := part[i : i+9]
			var w byte
			var n int
			if c, err := fmt.Sscanf(tok, "[%c%06d]", &w, &n); c != 2 || err != nil || tok != fmt.Sprintf("[%c%06d]", w, n) {
				return fmt.Sprintf("the %s part contains %q where a token was written", what, tok)
			}
			if seen[tok] {
				return fmt.Sprintf("token %s appears twice", tok)
			}
			seen[tok] = true
			if prev, ok := last[w]; ok && ((ascending && n != prev+1) || (!ascending && n != prev-1)) {
				return fmt.Sprintf("writer %c: token %d stands next to its token %d", w, n, prev)
			}
			last[w] = n
		}
		return ""
	}
	if msg := tokens(v[:at], "prepended", false); msg != "" {
		return 0, msg
	}
	if msg := tokens(v[at+len(seed):], "appended", true); msg != "" {
		return 0, msg
	}
	return len(seen), ""
}

var c17StackRound int64

// TestC17Stack: the shared in-memory backend behind the real server, used by
// several client connections at once on the same key, over the text and the
// binary protocol: one connection appends numbered tokens, one prepends them,
// the others read.  Every value read must be the seed with whole tokens around
// it (each at most once, each writer's in order, never fewer than the same
// connection saw before), and in the end every acknowledged token is there.
// Built with -race by the driver.
func TestC17Stack(t *testing.T) {
	rec := evid.For("C17")
	rounds := 6
	if thorough() {
		rounds = 80
	}
	shard, _ := evid.Shard()
	cfgs := []stack.Config{
		{Shape: "l1only", Lock: "nolock", L1: "inmem", L2: "-"},
		{Shape: "l1only", Lock: "lockNr", L1: "inmem", L2: "-", Conc: 3},
	}
	for round := 0; round < rounds; round++ {
		cfg := cfgs[(round+shard)%len(cfgs)]
		st := stack.Get(cfg)
		key := fmt.Sprintf("c17stack-%d-%d-%d", evid.Seed(), shard, atomic.AddInt64(&c17StackRound, 1))
		seed := "<seed-" + key + ">"
		readers := []int{2, 4, 8, 3}[(round/2+shard)%4]
		perWriter := 150
		setup := wire.NewClient(st.Dial(0), true)
		if o, err := setup.Do(wire.Cmd{Kind: wire.Set, Key: key, Value: []byte(seed), Flags: 9}); err != nil || o.Class != wire.OK {
			t.Fatalf("harness: set of the seed value: %v %s", err, o)
		}
		var wg sync.WaitGroup
		var stop int32
		var acked [2]int64
		var reads, grownReads int64
		var mu sync.Mutex
		problem := ""
		report := func(s string) {
			mu.Lock()
			if problem == "" {
				problem = s
			}
			mu.Unlock()
			atomic.StoreInt32(&stop, 1)
		}
		for w := 0; w < 2; w++ {
			wg.Add(1)
			go func(w int) {
				defer wg.Done()
				cl := wire.NewClient(st.Dial(0), (w+round)%2 == 0)
				defer cl.Close()
				kind, letter := wire.Append, 'a'
				if w == 1 {
					kind, letter = wire.Prepend, 'p'
				}
				for i := 0; i < perWriter && atomic.LoadInt32(&stop) == 0; i++ {
					o, err := cl.Do(wire.Cmd{Kind: kind, Key: key, Value: []byte(fmt.Sprintf("[%c%06d]", letter, i))})
					if err != nil || o.Class != wire.OK {
						report(fmt.Sprintf("%s of token %d on the existing key: %v %s", kind, i, err, o))
						return
					}
					atomic.AddInt64(&acked[w], 1)
				}
			}(w)
		}
		var rwg sync.WaitGroup
		for r := 0; r < readers; r++ {
			rwg.Add(1)
			go func(r int) {
				defer rwg.Done()
				binary := r%2 == 1
				cl := wire.NewClient(st.Dial(0), binary)
				defer cl.Close()
				most, mine := 0, 0
				for atomic.LoadInt32(&stop) == 0 {
					mine++
					c := wire.Cmd{Kind: wire.Get, Keys: []string{key}}
					if binary && mine%2 == 0 {
						c = wire.Cmd{Kind: wire.Gat, Key: key, Exptime: 0} // the other command that hands out the stored value
					}
					o, err := cl.Do(c)
					if err != nil || len(o.Hits) != 1 || len(o.Problems) > 0 {
						report(fmt.Sprintf("reader %d (binary=%v): %s of the key: %v %s", r, binary, c.Kind, err, o))
						return
					}
					n, msg := parseGrown(string(o.Hits[0].Value), seed)
					if msg == "" && n < most {
						msg = fmt.Sprintf("this connection read %d tokens before and reads %d now", most, n)
					}
					if msg == "" && o.Hits[0].Flags != 9 {
						msg = fmt.Sprintf("flags %d, stored with 9", o.Hits[0].Flags)
					}
					if msg != "" {
						report(fmt.Sprintf("reader %d (binary=%v) read %q: %s", r, binary, o.Hits[0].Value, msg))
						return
					}
					most = n
					atomic.AddInt64(&reads, 1)
					if n > 0 {
						atomic.AddInt64(&grownReads, 1)
					}
				}
			}(r)
		}
		wg.Wait()
		atomic.StoreInt32(&stop, 1)
		rwg.Wait()
		if problem == "" {
			o, err := setup.Do(wire.Cmd{Kind: wire.Get, Keys: []string{key}})
			if err != nil || len(o.Hits) != 1 {
				problem = fmt.Sprintf("final get: %v %s", err, o)
			} else if n, msg := parseGrown(string(o.Hits[0].Value), seed); msg != "" {
				problem = fmt.Sprintf("final value %q: %s", o.Hits[0].Value, msg)
			} else if int64(n) != acked[0]+acked[1] {
				problem = fmt.Sprintf("final value holds %d tokens, %d appends and %d prepends were acknowledged", n, acked[0], acked[1])
			}
		}
		setup.Do(wire.Cmd{Kind: wire.Delete, Key: key})
		setup.Close()
		rec.Case(grownReads > 0, fmt.Sprintf("stack|%s|%d|%d|%d", cfg, readers, shard, round), "inmem-behind-server-shared-key", "cfg:"+cfg.String())
		if problem != "" {
			p := rec.Violation("TestC17Stack", map[string]interface{}{"config": cfg.String(), "readers": readers, "problem": problem})
			t.Fatalf("C17 in-memory backend behind the server (%s), one appending, one prepending and %d reading connections on key %q: %s; replay %s", cfg, readers, key, problem, p)
		}
		if round < 2 {
			rec.Sample(true, map[string]interface{}{"config": cfg.String(), "reading_connections": readers, "reads": reads, "reads_of_a_grown_value": grownReads, "tokens_acknowledged": acked[0] + acked[1]})
		}
	}
}
