package props

import (
	"fmt"
	"os"
	"strings"
	"testing"
	"time"

	"verifharness/evid"
	"verifharness/fakemc"
	"verifharness/stack"
	"verifharness/wire"
)

type c15Refusal struct {
	Config string `json:"config"`
	Port   int    `json:"port"`
	Binary bool   `json:"binary"`
	Cmd    string `json:"cmd"`
	Tier   string `json:"tier"`
	At     int    `json:"at"`
	Status uint16 `json:"status"`
	Linger string `json:"linger"`
}

// TestC15AfterRefusal: the client disconnects after one of its requests ran
// into a backend that refused something.  For every configuration of
// c15Configs (cluster shape aside), every command of a small catalogue
// (stores of three-chunk values, append, prepend, touch, gat, delete, get), the
// backend request number 0..5 of that command on L1 or L2 answered with
// out-of-memory, busy or temporary-failure instead of being processed: the
// client reads the reply, sends nothing more or one further get, and leaves.
// Same release oracle as TestC15: backend connections and goroutines return to
// the baseline, and a fresh client is served.
func TestC15AfterRefusal(t *testing.T) {
	rec := evid.For("C15")
	shard, shards := evid.Shard()
	big := mkValue(91, 2600)
	cmds := []wire.Cmd{
		{Kind: wire.Set, Key: "kr", Value: big, Flags: 5},
		{Kind: wire.Add, Key: "knew", Value: big, Flags: 6},
		{Kind: wire.Replace, Key: "kb", Value: big, Flags: 7},
		{Kind: wire.Append, Key: "kb", Value: mkValue(92, 1500)},
		{Kind: wire.Prepend, Key: "kb", Value: []byte("front")},
		{Kind: wire.Touch, Key: "kb", Exptime: 5000},
		{Kind: wire.Gat, Key: "kb", Exptime: 5000},
		{Kind: wire.Delete, Key: "kb"},
		{Kind: wire.Get, Keys: []string{"kb", "ka"}},
	}
	statuses := []uint16{0x82, 0x85, 0x86, 0xfffe, 0xffff, 0xfffd} // the last three stand for: connection closed before / after processing (no reply), and closed while the client was idle
	idx, cases, fired := 0, 0, 0
	for _, cc := range c15Configs() {
		if cc.Cfg.L1 == "cluster" {
			continue
		}
		for _, binary := range []bool{true, false} {
			for ci, cmd := range cmds {
				if !binary && cmd.Kind == wire.Gat {
					continue
				}
				idx++
				if idx%shards != shard {
					continue
				}
				st := stack.Get(cc.Cfg)
				tiers := []string{"L1"}
				if st.L2 != nil {
					tiers = append(tiers, "L2")
				}
				for _, tier := range tiers {
					for at := 0; at < 6; at++ {
						if !thorough() && (at+ci)%2 == 1 {
							continue
						}
						status := statuses[(at+ci+idx)%len(statuses)]
						linger := []string{"leave-at-once", "one-more-get"}[(at+idx)%2]
						st.Reset()
						setup := wire.NewClient(st.Dial(0), true)
						setup.Do(wire.Cmd{Kind: wire.Set, Key: "ka", Value: []byte("prepared-a"), Flags: 1})
						setup.Do(wire.Cmd{Kind: wire.Set, Key: "kb", Value: mkValue(3, 2300), Flags: 2})
						setup.Close()
						baseL1, baseL2, baseG := c15Baseline(st, cc.Port)
						baseFD := openFDs()
						target := st.L1
						if tier == "L2" {
							target = st.L2
						}
						c := c15Refusal{Config: cc.Cfg.String(), Port: cc.Port, Binary: binary, Cmd: cmd.String(), Tier: tier, At: at, Status: status, Linger: linger}
						cl := wire.NewClient(st.Dial(cc.Port), binary)
						cl.Timeout = hangBound()
						cl.Do(wire.Cmd{Kind: wire.Version}) // the server has accepted us and opened our backend connections
						switch status {
						case 0xfffd:
							target.CloseConns() // only this client's backend connection is open at this moment
							time.Sleep(time.Millisecond)
						case 0xfffe:
							target.Arm(&fakemc.Fault{At: at, Kind: fakemc.FaultCloseBefore})
						case 0xffff:
							target.Arm(&fakemc.Fault{At: at, Kind: fakemc.FaultCloseAfterProc})
						default:
							target.Arm(&fakemc.Fault{At: at, Kind: fakemc.FaultStatus, Status: status})
						}
						cc2 := cmd
						cc2.Port = cc.Port
						_, err := cl.Do(cc2)
						if err == wire.ErrTimeout {
							noteHang()
						}
						if linger == "one-more-get" && err == nil {
							cl.Do(wire.Cmd{Kind: wire.Get, Keys: []string{"ka"}})
						}
						f := target.FaultsFired()
						target.Disarm()
						cl.Close()
						msg := ""
						if err == wire.ErrTimeout {
							msg = "the request was not answered within the bound"
						} else if held := c15Quiesce(st, baseL1, baseL2, baseG, 20*time.Second); held != "" {
							if held2 := c15Quiesce(st, baseL1, baseL2, baseG, c15Second()); held2 != "" {
								msg = "more than a minute after the client left, still held: " + held2
							}
						}
						if msg == "" {
							// the process holds no more descriptors than before the client came: a
							// backend connection that the backend has closed already must be closed on
							// rend's side too (the fake cannot see that end)
							deadline := time.Now().Add(20 * time.Second)
							for openFDs() > baseFD && time.Now().Before(deadline) {
								time.Sleep(2 * time.Millisecond)
							}
							if n := openFDs(); n > baseFD {
								msg = fmt.Sprintf("twenty seconds after the client left the process holds %d open descriptors, %d before the client connected: %s", n, baseFD, fdList())
							}
						}
						if msg == "" {
							fc := wire.NewClient(st.Dial(cc.Port), true)
							fc.Timeout = hangBound()
							v := mkValue(uint32(at+ci), 40)
							o1, e1 := fc.Do(wire.Cmd{Kind: wire.Set, Key: "kb", Value: v, Flags: 4})
							o2, e2 := fc.Do(wire.Cmd{Kind: wire.Get, Keys: []string{"kb"}})
							fc.Close()
							if e1 != nil || e2 != nil || o1.Class != wire.OK || len(o2.Hits) != 1 || string(o2.Hits[0].Value) != string(v) {
								msg = fmt.Sprintf("a fresh client's set and get of the same key afterwards: %v %s / %v %s", e1, o1, e2, o2)
							} else if held := c15Quiesce(st, baseL1, baseL2, baseG, 20*time.Second); held != "" {
								msg = "after the fresh client left: " + held
							}
						}
						cases++
						if f > 0 {
							fired++
						}
						if status == 0xfffd {
							f = 1
						}
						rec.Case(f > 0, fmt.Sprintf("refusal|%+v", c), "disconnect-after-backend-refusal")
						if msg != "" {
							rp := rec.Violation("TestC15AfterRefusal", c)
							t.Errorf("C15 %s port %d bin=%v: %s with %s request #%d answered status %#x, client then %s and disconnects: %s; replay %s", cc.Cfg, cc.Port, binary, cmd, tier, at, status, linger, msg, rp)
							if len(rec.Violations) > 5 {
								return
							}
						}
					}
				}
			}
		}
	}
	rec.ClassN("refusal-cases", int64(cases))
	rec.Sample(true, map[string]interface{}{"disconnect_after_refusal_cases": cases, "cases_in_which_the_refusal_fired": fired})
}

// openFDs counts the descriptors of this process (harness, fakes and the
// server under test share it).
func openFDs() int {
	ents, err := os.ReadDir("/proc/self/fd")
	if err != nil {
		return 0
	}
	return len(ents)
}

func fdList() string {
	ents, _ := os.ReadDir("/proc/self/fd")
	var out []string
	for _, e := range ents {
		if l, err := os.Readlink("/proc/self/fd/" + e.Name()); err == nil && strings.HasPrefix(l, "socket:") {
			out = append(out, e.Name()+"->"+l)
		}
	}
	return strings.Join(out, " ")
}
