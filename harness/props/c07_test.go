package props

import (
	"bufio"
	"bytes"
	"fmt"
	"io"
	"strings"
	"testing"

	"github.com/netflix/rend/common"
	"github.com/netflix/rend/protocol"
	"github.com/netflix/rend/protocol/binprot"
	"github.com/netflix/rend/protocol/textprot"
	"pgregory.net/rapid"

	"verifharness/evid"
	"verifharness/stack"
	"verifharness/wire"
)

// segReader hands out a byte stream in predetermined segment sizes and counts
// what it has delivered.
type segReader struct {
	data     []byte
	cuts     []int // absolute offsets at which a Read must stop
	pos      int
	consumed int
}

func (s *segReader) Read(p []byte) (int, error) {
	if s.pos >= len(s.data) {
		return 0, io.EOF
	}
	end := len(s.data)
	for _, c := range s.cuts {
		if c > s.pos {
			end = c
			break
		}
	}
	if end > s.pos+len(p) {
		end = s.pos + len(p)
	}
	n := copy(p, s.data[s.pos:end])
	s.pos += n
	s.consumed += n
	return n, nil
}

func genBinKey(t *rapid.T, label string) string {
	n := rapid.SampledFrom([]int{1, 1, 2, 5, 16, 249, 250}).Draw(t, label+"Len")
	if rapid.Bool().Draw(t, label+"Uniform") {
		n = rapid.IntRange(1, 250).Draw(t, label+"LenU")
	}
	seed := rapid.Uint32Range(0, 9999).Draw(t, label+"Seed")
	return string(mkValue(seed, n)) // arbitrary bytes incl. NUL, CR, LF, space, 0x80
}

func genTextKey(t *rapid.T, label string) string {
	n := rapid.SampledFrom([]int{1, 1, 2, 5, 16, 249, 250}).Draw(t, label+"Len")
	seed := rapid.Uint32Range(0, 9999).Draw(t, label+"Seed")
	b := mkValue(seed, n)
	for i := range b {
		b[i] = 0x21 + b[i]%(0x7f-0x21) // printable ASCII without space
	}
	// The text protocol delimits tokens with 0x20 only: every other byte except
	// CR/LF belongs to the key.  Plant whitespace-looking bytes (TAB, VT, FF,
	// UTF-8 NBSP / NEL / ideographic space / em space) and bytes >= 0x80
	// strictly inside the key -- the first and last byte stay printable because
	// the parser trims the ends of the line (seed C07o: strings.Fields).
	if n >= 5 && rapid.IntRange(0, 2).Draw(t, label+"Odd") == 0 {
		odd := []string{"\t", "\v", "\f", "\xc2\xa0", "\xc2\x85", "\xe3\x80\x80", "\xe2\x80\x83", "\x80", "\xff", "\x1c", "\x00"}
		for k := rapid.IntRange(1, 3).Draw(t, label+"OddN"); k > 0; k-- {
			s := rapid.SampledFrom(odd).Draw(t, label+"OddS")
			at := rapid.IntRange(1, n-1-len(s)).Draw(t, label+"OddAt")
			copy(b[at:], s)
		}
	}
	return string(b)
}

func genWireValue(t *rapid.T, label string) []byte {
	n := rapid.SampledFrom([]int{0, 1, 2, 3, 100, 4095, 4096, 4097, 20000, 65536}).Draw(t, label+"Len")
	seed := rapid.Uint32Range(0, 9999).Draw(t, label+"Seed")
	return mkValue(seed, n)
}

func genU32(t *rapid.T, label string) uint32 {
	if rapid.Bool().Draw(t, label+"Edge") {
		return rapid.SampledFrom([]uint32{0, 1, 0xff, 0x100, 0xffff, 0x10000, 0x7fffffff, 0x80000000, 0xffffffff, 0x0a0d0a0d}).Draw(t, label)
	}
	return rapid.Uint32().Draw(t, label)
}

func genWireCmd(t *rapid.T, binary bool) wire.Cmd {
	key := func(l string) string {
		if binary {
			return genBinKey(t, l)
		}
		return genTextKey(t, l)
	}
	kinds := []wire.Kind{wire.Set, wire.Add, wire.Replace, wire.Append, wire.Prepend, wire.Delete, wire.Touch, wire.Get, wire.Get, wire.Noop, wire.Version, wire.Stat, wire.Quit}
	if binary {
		kinds = append(kinds, wire.Gat, wire.GetE)
	}
	c := wire.Cmd{Kind: rapid.SampledFrom(kinds).Draw(t, "kind")}
	if binary {
		c.Opaque = genU32(t, "opaque")
	}
	switch c.Kind {
	case wire.Set, wire.Add, wire.Replace:
		c.Key, c.Value, c.Flags, c.Exptime = key("key"), genWireValue(t, "val"), genU32(t, "flags"), genU32(t, "ttl")
		if binary {
			c.Quiet = rapid.Bool().Draw(t, "quiet")
		}
	case wire.Append, wire.Prepend:
		c.Key, c.Value = key("key"), genWireValue(t, "val")
		if binary {
			c.Quiet = rapid.Bool().Draw(t, "quiet")
		} else {
			c.Flags, c.Exptime = genU32(t, "flags"), genU32(t, "ttl")
		}
	case wire.Delete:
		c.Key = key("key")
	case wire.Touch, wire.Gat:
		c.Key, c.Exptime = key("key"), genU32(t, "ttl")
	case wire.Quit:
		if binary {
			c.Quiet = rapid.Bool().Draw(t, "quiet") // quitq
		}
	case wire.Get, wire.GetE:
		n := rapid.IntRange(1, 6).Draw(t, "nkeys")
		if rapid.IntRange(0, 7).Draw(t, "manyKeys") == 0 {
			// long key lists: a text get line well beyond any 4 KiB buffer
			n = rapid.IntRange(17, 64).Draw(t, "nkeysMany")
		}
		for i := 0; i < n; i++ {
			c.Keys = append(c.Keys, key("gkey"))
		}
		if binary {
			c.NoopEnd = rapid.Bool().Draw(t, "noopEnd")
			if c.Opaque > 0xffffff00 {
				c.Opaque -= 0x100 // room for per-key opaques
			}
		}
	}
	return c
}

// checkDecoded compares what a parser returned with the generator's intent.
func checkDecoded(c wire.Cmd, binary bool, req common.Request, typ common.RequestType) string {
	wantType := map[wire.Kind]common.RequestType{
		wire.Set: common.RequestSet, wire.Add: common.RequestAdd, wire.Replace: common.RequestReplace,
		wire.Append: common.RequestAppend, wire.Prepend: common.RequestPrepend, wire.Delete: common.RequestDelete,
		wire.Touch: common.RequestTouch, wire.Get: common.RequestGet, wire.Gat: common.RequestGat, wire.GetE: common.RequestGetE,
		wire.Noop: common.RequestNoop, wire.Version: common.RequestVersion, wire.Stat: common.RequestStat, wire.Quit: common.RequestQuit,
	}[c.Kind]
	if typ != wantType {
		return fmt.Sprintf("request type %d, want %d", typ, wantType)
	}
	switch c.Kind {
	case wire.Set, wire.Add, wire.Replace, wire.Append, wire.Prepend:
		r, ok := req.(common.SetRequest)
		if !ok {
			return fmt.Sprintf("decoded %T", req)
		}
		wf, we := c.Flags, c.Exptime
		if binary && (c.Kind == wire.Append || c.Kind == wire.Prepend) {
			wf, we = 0, 0
		}
		if string(r.Key) != c.Key || !bytes.Equal(r.Data, c.Value) || r.Flags != wf || r.Exptime != we || r.Opaque != c.Opaque || r.Quiet != c.Quiet {
			return fmt.Sprintf("decoded {key %q data %s flags %d ttl %d opaque %d quiet %v}, sent {key %q data %s flags %d ttl %d opaque %d quiet %v}",
				r.Key, short(r.Data), r.Flags, r.Exptime, r.Opaque, r.Quiet, c.Key, short(c.Value), wf, we, c.Opaque, c.Quiet)
		}
	case wire.Delete:
		r, ok := req.(common.DeleteRequest)
		if !ok || string(r.Key) != c.Key || r.Opaque != c.Opaque || r.Quiet {
			return fmt.Sprintf("decoded %#v", req)
		}
	case wire.Touch:
		r, ok := req.(common.TouchRequest)
		if !ok || string(r.Key) != c.Key || r.Opaque != c.Opaque || r.Exptime != c.Exptime || r.Quiet {
			return fmt.Sprintf("decoded %#v", req)
		}
	case wire.Gat:
		r, ok := req.(common.GATRequest)
		if !ok || string(r.Key) != c.Key || r.Opaque != c.Opaque || r.Exptime != c.Exptime || r.Quiet {
			return fmt.Sprintf("decoded %#v", req)
		}
	case wire.Get, wire.GetE:
		r, ok := req.(common.GetRequest)
		if !ok {
			return fmt.Sprintf("decoded %T", req)
		}
		if len(r.Keys) != len(c.Keys) || len(r.Opaques) != len(c.Keys) || len(r.Quiet) != len(c.Keys) {
			return fmt.Sprintf("decoded %d keys / %d opaques / %d quiets, sent %d keys", len(r.Keys), len(r.Opaques), len(r.Quiet), len(c.Keys))
		}
		for i, k := range c.Keys {
			wq, wo := false, uint32(0)
			if binary {
				wq = c.NoopEnd || i < len(c.Keys)-1
				wo = c.Opaque + uint32(i)
			}
			if string(r.Keys[i]) != k || r.Opaques[i] != wo || r.Quiet[i] != wq {
				return fmt.Sprintf("key %d decoded {%q opaque %d quiet %v}, sent {%q opaque %d quiet %v}", i, r.Keys[i], r.Opaques[i], r.Quiet[i], k, wo, wq)
			}
		}
		wantNoopOpq := uint32(0)
		if c.NoopEnd {
			wantNoopOpq = c.Opaque + uint32(len(c.Keys))
		}
		if r.NoopEnd != c.NoopEnd || r.NoopOpaque != wantNoopOpq {
			return fmt.Sprintf("decoded NoopEnd %v opaque %d, sent NoopEnd %v opaque %d", r.NoopEnd, r.NoopOpaque, c.NoopEnd, wantNoopOpq)
		}
	case wire.Noop:
		r, ok := req.(common.NoopRequest)
		if !ok || r.Opaque != c.Opaque {
			return fmt.Sprintf("decoded %#v", req)
		}
	case wire.Version:
		r, ok := req.(common.VersionRequest)
		if !ok || r.Opaque != c.Opaque {
			return fmt.Sprintf("decoded %#v", req)
		}
	case wire.Stat:
		r, ok := req.(common.StatRequest)
		if !ok || r.Opaque != c.Opaque {
			return fmt.Sprintf("decoded %#v", req)
		}
	case wire.Quit:
		r, ok := req.(common.QuitRequest)
		if !ok || r.Opaque != c.Opaque || r.Quiet != c.Quiet {
			return fmt.Sprintf("decoded %#v", req)
		}
	}
	return ""
}

func newParser(binary bool, r *bufio.Reader) protocol.RequestParser {
	if binary {
		return binprot.NewBinaryParser(r)
	}
	return textprot.NewTextParser(r)
}

func encodeCmd(binary bool, c wire.Cmd) []byte {
	if binary {
		return wire.EncodeBinary(c)
	}
	return wire.EncodeText(c)
}

// parsePipeline feeds the encoded pipeline through a parser with the given
// cuts and checks decoding and byte accounting.  Returns "" if all is well.
func parsePipeline(binary bool, cmds []wire.Cmd, encs [][]byte, cuts []int) string {
	var stream []byte
	for _, e := range encs {
		stream = append(stream, e...)
	}
	sr := &segReader{data: stream, cuts: cuts}
	br := bufio.NewReader(sr)
	p := newParser(binary, br)
	sum := 0
	for i, c := range cmds {
		req, typ, _, err := p.Parse()
		if err != nil {
			return fmt.Sprintf("request %d (%s): Parse error %v", i, c, err)
		}
		if msg := checkDecoded(c, binary, req, typ); msg != "" {
			return fmt.Sprintf("request %d (%s): %s", i, c, msg)
		}
		sum += len(encs[i])
		if used := sr.consumed - br.Buffered(); used != sum {
			return fmt.Sprintf("request %d (%s): parser has consumed %d bytes, the requests so far are %d bytes", i, c, used, sum)
		}
	}
	if _, _, _, err := p.Parse(); err != io.EOF {
		return fmt.Sprintf("after the last request Parse returned %v, want io.EOF", err)
	}
	return ""
}

func TestC07(t *testing.T) {
	rec := evid.For("C07")
	rapid.Check(t, func(t *rapid.T) {
		binary := rapid.Bool().Draw(t, "binary")
		n := rapid.IntRange(1, 8).Draw(t, "pipeline")
		cmds := make([]wire.Cmd, n)
		encs := make([][]byte, n)
		total := 0
		var bounds []int // frame boundaries
		for i := range cmds {
			cmds[i] = genWireCmd(t, binary)
			encs[i] = encodeCmd(binary, cmds[i])
			total += len(encs[i])
			bounds = append(bounds, total)
		}
		// segmentation: a drawn style plus explicit cuts near frame boundaries and headers
		style := rapid.SampledFrom([]string{"whole", "bytewise", "random", "boundaries±"}).Draw(t, "style")
		var cuts []int
		switch style {
		case "bytewise":
			if total <= 6000 {
				for i := 1; i < total; i++ {
					cuts = append(cuts, i)
				}
			} else {
				for i := 1; i < total; i += 1 + i/64 {
					cuts = append(cuts, i)
				}
			}
		case "random":
			k := rapid.IntRange(1, 40).Draw(t, "ncuts")
			pos := 0
			for i := 0; i < k && pos < total; i++ {
				pos += rapid.IntRange(1, 1+total/4).Draw(t, "seg")
				if pos < total {
					cuts = append(cuts, pos)
				}
			}
		case "boundaries±":
			for _, b := range append([]int{0}, bounds...) {
				for _, d := range []int{-2, -1, 1, 2, 23, 24, 25, 31, 32} {
					if rapid.Bool().Draw(t, "cutHere") {
						if x := b + d; x > 0 && x < total {
							cuts = append(cuts, x)
						}
					}
				}
			}
			sortInts(cuts)
		}
		if msg := parsePipeline(binary, cmds, encs, cuts); msg != "" {
			t.Fatalf("C07 binary=%v style=%s cuts=%v: %s\npipeline: %s", binary, style, trunc(cuts), msg, strings.Join(cmdsString(cmds), " | "))
		}
		// the same stream in one piece must decode identically (covered by the
		// comparison with intent); run it too so both segmentations are exercised
		if len(cuts) > 0 {
			if msg := parsePipeline(binary, cmds, encs, nil); msg != "" {
				t.Fatalf("C07 binary=%v unsegmented: %s\npipeline: %s", binary, msg, strings.Join(cmdsString(cmds), " | "))
			}
		}
		inside := false
		bset := map[int]bool{}
		for _, b := range bounds {
			bset[b] = true
		}
		for _, c := range cuts {
			if !bset[c] {
				inside = true
			}
		}
		nt := n >= 2 && inside
		var fp strings.Builder
		fmt.Fprintf(&fp, "%v|%v", binary, cuts)
		for _, e := range encs {
			fmt.Fprintf(&fp, "|%x", evid.Hash(string(e)))
		}
		rec.Case(nt, fp.String(), fmt.Sprintf("proto-binary=%v", binary), "style:"+style)
		if rec.WantSample(nt) {
			rec.Sample(nt, map[string]interface{}{"binary": binary, "pipeline": cmdsString(cmds), "cuts": trunc(cuts), "stream_bytes": total})
		}
	})
}

func sortInts(a []int) {
	for i := 1; i < len(a); i++ {
		for j := i; j > 0 && a[j] < a[j-1]; j-- {
			a[j], a[j-1] = a[j-1], a[j]
		}
	}
}

func trunc(a []int) []int {
	if len(a) > 40 {
		return a[:40]
	}
	return a
}

// TestC07FirstByte checks the protocol choice by first byte: exhaustively at
// the disambiguators, and through the real listener.
func TestC07FirstByte(t *testing.T) {
	rec := evid.For("C07")
	for b := 0; b < 256; b++ {
		r := bufio.NewReader(bytes.NewReader([]byte{byte(b), 'x'}))
		bin, err1 := binprot.Components.NewDisambiguator(protocol.Peeker(r)).CanParse()
		txt, err2 := textprot.Components.NewDisambiguator(protocol.Peeker(r)).CanParse()
		wantBin, wantTxt := b == 0x80, b >= 'a' && b <= 'z'
		if err1 != nil || err2 != nil || bin != wantBin || txt != wantTxt {
			p := rec.Violation("TestC07FirstByte", map[string]interface{}{"first_byte": b, "binary": bin, "text": txt})
			t.Errorf("first byte %#x: binary=%v text=%v (errors %v %v); replay %s", b, bin, txt, err1, err2, p)
		}
		if r.Buffered() != 2 {
			t.Errorf("first byte %#x: disambiguation consumed input", b)
		}
		rec.Case(wantBin || wantTxt, fmt.Sprintf("firstbyte%d", b), "first-byte-grid")
	}
	rec.MarkExhaustive("all 256 first bytes at both disambiguators")
	st := stack.Get(stack.Config{Shape: "l1only", Lock: "nolock", L1: "std", L2: "-"})
	// binary through the listener
	c := wire.NewClient(st.Dial(0), true)
	o, err := c.Do(wire.Cmd{Kind: wire.Noop, Opaque: 77})
	c.Close()
	if err != nil || o.Class != wire.OK || len(o.Problems) > 0 {
		t.Errorf("binary connection through the listener: %v %s", err, o)
	}
	for b := byte('a'); b <= 'z'; b++ {
		c := wire.NewClient(st.Dial(0), false)
		line := string([]byte{b}) + "zzq\r\n"
		c.C.Write([]byte(line))
		o, err := c.RecvText(wire.Cmd{Kind: wire.UnknownCmd})
		c.Close()
		if err != nil || o.Class != wire.Error || !strings.HasPrefix(o.Line, "ERROR") {
			p := rec.Violation("TestC07FirstByte", map[string]interface{}{"first_byte": int(b), "line": line, "outcome": o.String()})
			t.Errorf("text connection starting with %q through the listener: %v %s; replay %s", b, err, o, p)
		}
		rec.Case(true, fmt.Sprintf("listener%d", b), "first-byte-listener")
	}
}
