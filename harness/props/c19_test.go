package props

import (
	"crypto/md5"
	"encoding/binary"
	"fmt"
	"hash/adler32"
	"hash/crc32"
	"hash/fnv"
	"sort"
	"strings"
	"sync"
	"testing"

	"github.com/netflix/rend/common"
	"github.com/netflix/rend/handlers/memcached/cluster"
	"pgregory.net/rapid"

	"verifharness/evid"
	"verifharness/fakemc"
	"verifharness/wire"
)

type lbl string

func (l lbl) Label() string  { return string(l) }
func (l lbl) Weight() uint32 { return 1 }

func ringOf(labels []string) *cluster.Continuum {
	bs := make([]cluster.Bucket, len(labels))
	for i, l := range labels {
		bs[i] = lbl(l)
	}
	return cluster.New(bs)
}

// ringPoints computes (independently of the code under test) the ketama
// points of a label: md5(label-k), four little-endian uint32 per digest.
func ringPoints(label string) []uint32 {
	var out []uint32
	for k := 0; k < 40; k++ {
		d := md5.Sum([]byte(fmt.Sprintf("%s-%d", label, k)))
		for h := 0; h < 4; h++ {
			out = append(out, binary.LittleEndian.Uint32(d[h*4:]))
		}
	}
	return out
}

func labelOf(i int) string { return fmt.Sprintf("10.%d.%d.%d:11211", i>>16&255, i>>8&255, i&255) }

// collidingLabels finds pairs of distinct labels that share a ring point.
var (
	collOnce  sync.Once
	collPairs [][3]interface{} // labelA, labelB, point
)

func collisions() [][3]interface{} {
	collOnce.Do(func() {
		seen := map[uint32]int{}
		for i := 0; i < 6000 && len(collPairs) < 24; i++ {
			for _, p := range ringPoints(labelOf(i)) {
				if j, ok := seen[p]; ok && j != i {
					collPairs = append(collPairs, [3]interface{}{labelOf(j), labelOf(i), p})
				} else {
					seen[p] = i
				}
			}
		}
	})
	return collPairs
}

// hashCollidingKeys returns pairs of distinct keys that have the same value
// under a cheap 32-bit hash in common use (FNV-1, FNV-1a, CRC-32 IEEE and
// Castagnoli, Adler-32), found by a birthday search.  Routing is a function of
// the key: whatever a lookup remembers about earlier keys must not confuse two
// keys that merely look alike to such a hash.
var (
	hashCollOnce  sync.Once
	hashCollPairs [][2]string
)

func hashCollidingKeys() [][2]string {
	hashCollOnce.Do(func() {
		cast := crc32.MakeTable(crc32.Castagnoli)
		fams := []func([]byte) uint32{
			func(b []byte) uint32 { h := fnv.New32a(); h.Write(b); return h.Sum32() },
			func(b []byte) uint32 { h := fnv.New32(); h.Write(b); return h.Sum32() },
			crc32.ChecksumIEEE,
			func(b []byte) uint32 { return crc32.Checksum(b, cast) },
			adler32.Checksum,
		}
		for _, f := range fams {
			seen := make(map[uint32]int, 400000)
			found := 0
			for i := 0; i < 400000 && found < 4; i++ {
				k := fmt.Sprintf("user:%d", i)
				h := f([]byte(k))
				if j, ok := seen[h]; ok {
					hashCollPairs = append(hashCollPairs, [2]string{fmt.Sprintf("user:%d", j), k})
					found++
				} else {
					seen[h] = i
				}
			}
		}
	})
	return hashCollPairs
}

func permutations(n int) [][]int {
	if n == 1 {
		return [][]int{{0}}
	}
	var out [][]int
	for _, p := range permutations(n - 1) {
		for pos := 0; pos <= len(p); pos++ {
			q := append(append(append([]int{}, p[:pos]...), n-1), p[pos:]...)
			out = append(out, q)
		}
	}
	return out
}

func permuted(labels []string, perm []int) []string {
	out := make([]string, len(labels))
	for i, p := range perm {
		out[i] = labels[p]
	}
	return out
}

func probeLocations(labels []string, extra []uint32) []uint32 {
	locs := []uint32{0, 1, 1<<32 - 1, 1<<32 - 2, 1 << 31}
	for _, l := range labels {
		for _, p := range ringPoints(l) {
			locs = append(locs, p-1, p, p+1)
		}
	}
	return append(locs, extra...)
}

func TestC19(t *testing.T) {
	rec := evid.For("C19")
	colls := collisions()
	if len(colls) == 0 {
		t.Fatal("harness: no colliding labels found")
	}
	rapid.Check(t, func(t *rapid.T) {
		n := rapid.IntRange(1, 32).Draw(t, "n")
		if rapid.IntRange(0, 2).Draw(t, "small") > 0 {
			n = rapid.IntRange(1, 5).Draw(t, "nSmall")
		}
		useColl := n >= 2 && rapid.Bool().Draw(t, "withCollision")
		set := map[string]bool{}
		var labels []string
		if useColl {
			c := colls[rapid.IntRange(0, len(colls)-1).Draw(t, "collision")]
			labels = append(labels, c[0].(string), c[1].(string))
			set[labels[0]], set[labels[1]] = true, true
		}
		// label family: IPv4 ip:port, IPv6 [addr]:port of one subnet, long DNS
		// names of one domain (labels that share long prefixes)
		family := rapid.SampledFrom([]string{"ipv4", "ipv4", "ipv6", "dns"}).Draw(t, "labelFamily")
		for len(labels) < n {
			l := labelOf(rapid.IntRange(0, 1<<20).Draw(t, "label"))
			if rapid.IntRange(0, 3).Draw(t, "otherPort") == 0 {
				l = strings.Replace(l, ":11211", fmt.Sprintf(":%d", rapid.IntRange(1, 65535).Draw(t, "port")), 1)
			}
			switch family {
			case "ipv6":
				l = fmt.Sprintf("[2001:db8:85a3:8d3:1319:8a2e:370:%x]:11211", rapid.IntRange(0, 0xffff).Draw(t, "v6host"))
				if rapid.IntRange(0, 3).Draw(t, "v6port") == 0 {
					l = strings.Replace(l, ":11211", fmt.Sprintf(":%d", rapid.IntRange(11000, 11999).Draw(t, "port6")), 1)
				}
			case "dns":
				l = fmt.Sprintf("memcached-cache-shard-%03d.prod.eu-west-1.example.internal:11211", rapid.IntRange(0, 999).Draw(t, "dnsShard"))
			}
			if !set[l] {
				set[l] = true
				labels = append(labels, l)
			}
		}
		// random key probes
		nkeys := 2000 * n
		if nkeys > 20000 {
			nkeys = 20000
		}
		keySeed := rapid.Uint32Range(0, 9999).Draw(t, "keySeed")
		keys := make([][]byte, nkeys)
		for i := range keys {
			keys[i] = []byte(fmt.Sprintf("key-%d-%d", keySeed, i))
		}
		// look-alike keys (equal under a common cheap 32-bit hash), adjacent and far apart
		for pi, pr := range hashCollidingKeys() {
			keys = append(keys, []byte(pr[0]), []byte(pr[1]))
			keys[(pi*2)%nkeys], keys[(pi*2+1)%nkeys] = []byte(pr[1]), []byte(pr[0])
		}
		locs := probeLocations(labels, nil)

		base := ringOf(labels)
		ownerLoc := make([]string, len(locs))
		for i, l := range locs {
			ownerLoc[i] = base.Bucket(l).Label()
		}
		ownerKey := make([]string, len(keys))
		share := map[string]int{}
		for i, k := range keys {
			ownerKey[i] = base.Hash(k).Label()
			share[ownerKey[i]]++
		}
		// permutations: all for n <= 5, drawn above
		var perms [][]int
		if n <= 5 {
			perms = permutations(n)
		} else {
			for i := 0; i < 4; i++ {
				perms = append(perms, rapid.Permutation(identity(n)).Draw(t, "perm"))
			}
			rev := make([]int, n)
			for i := range rev {
				rev[i] = n - 1 - i
			}
			perms = append(perms, rev)
		}
		nonIdentity := false
		for pn, perm := range perms {
			pl := permuted(labels, perm)
			if strings.Join(pl, ",") != strings.Join(labels, ",") {
				nonIdentity = true
			}
			r := ringOf(pl)
			for i, l := range locs {
				if got := r.Bucket(l).Label(); got != ownerLoc[i] {
					t.Fatalf("C19: ring location %d is owned by %s when nodes are listed as %v but by %s when listed as %v", l, ownerLoc[i], labels, got, pl)
				}
			}
			// the keys are asked for in the opposite order on every other ring: what a
			// ring was asked before must not matter
			for x := range keys {
				i := x
				if pn%2 == 0 {
					i = len(keys) - 1 - x
				}
				k := keys[i]
				if got := r.Hash(k).Label(); got != ownerKey[i] {
					t.Fatalf("C19: key %q is routed to %s when nodes are listed as %v (keys asked in generated order) but to %s when listed as %v (keys asked in %s order)", k, ownerKey[i], labels, got, pl, map[bool]string{true: "the opposite", false: "the same"}[pn%2 == 0])
				}
			}
		}
		// a listing that names a node more than once (a host listed twice, two names
		// of one address) is a listing of the same node set
		if rapid.IntRange(0, 2).Draw(t, "withRepeats") == 0 {
			pl := append([]string{}, labels...)
			for r := rapid.IntRange(1, 3).Draw(t, "repeats"); r > 0; r-- {
				dup := labels[rapid.IntRange(0, n-1).Draw(t, "repeated")]
				at := rapid.IntRange(0, len(pl)).Draw(t, "repeatAt")
				pl = append(pl[:at], append([]string{dup}, pl[at:]...)...)
			}
			r := ringOf(pl)
			for i, l := range locs {
				if got := r.Bucket(l).Label(); got != ownerLoc[i] {
					t.Fatalf("C19: ring location %d is owned by %s when nodes are listed as %v but by %s when the same nodes are listed as %v (some of them twice)", l, ownerLoc[i], labels, got, pl)
				}
			}
			for i, k := range keys {
				if got := r.Hash(k).Label(); got != ownerKey[i] {
					t.Fatalf("C19: key %q is routed to %s when nodes are listed as %v but to %s when the same nodes are listed as %v (some of them twice)", k, ownerKey[i], labels, got, pl)
				}
			}
		}
		// shares
		if n >= 2 && nkeys >= 2000*n {
			for _, l := range labels {
				s := share[l]
				lo, hi := nkeys/(4*n), 4*nkeys/n
				if s == 0 || s < lo || s > hi {
					t.Fatalf("C19: node %s receives %d of %d keys with %d equally weighted nodes (allowed %d..%d); nodes %v", l, s, nkeys, n, lo, hi, labels)
				}
			}
		}
		// single-node removals
		if n >= 2 {
			removals := identity(n)
			if n > 6 {
				removals = rapid.SliceOfNDistinct(rapid.IntRange(0, n-1), 3, 3, rapid.ID[int]).Draw(t, "removals")
			}
			for _, ri := range removals {
				rest := append(append([]string{}, labels[:ri]...), labels[ri+1:]...)
				r := ringOf(rest)
				for i, l := range locs {
					if ownerLoc[i] != labels[ri] {
						if got := r.Bucket(l).Label(); got != ownerLoc[i] {
							t.Fatalf("C19: removing node %s re-routes ring location %d from %s to %s; nodes %v", labels[ri], l, ownerLoc[i], got, labels)
						}
					}
				}
				for i, k := range keys {
					if ownerKey[i] != labels[ri] {
						if got := r.Hash(k).Label(); got != ownerKey[i] {
							t.Fatalf("C19: removing node %s re-routes key %q from %s to %s; nodes %v", labels[ri], k, ownerKey[i], got, labels)
						}
					}
				}
			}
		}
		nt := n >= 2 && nonIdentity
		cl := []string{fmt.Sprintf("n=%d", n), "labels:" + family}
		if useColl {
			cl = append(cl, "collision-bearing-set")
		}
		sorted := append([]string{}, labels...)
		sort.Strings(sorted)
		rec.Case(nt, strings.Join(sorted, ",")+fmt.Sprint(keySeed), cl...)
		if rec.WantSample(nt) && n <= 6 {
			rec.Sample(nt, map[string]interface{}{"nodes": labels, "collision_bearing": useColl, "permutations_checked": len(perms), "probe_locations": len(locs), "keys": nkeys})
		}
	})
}

func identity(n int) []int {
	out := make([]int, n)
	for i := range out {
		out[i] = i
	}
	return out
}

// collidingLoopbackFakes starts three fakes on loopback TCP ports, two of whose
// "127.0.0.1:port" labels share a ring point.
func collidingLoopbackFakes(t *testing.T) (fakes []*fakemc.Server, addrs []string, point uint32) {
	// find two loopback ports whose labels collide on the ring
	seen := map[uint32]int{}
	type pair struct {
		a, b  int
		point uint32
	}
	var pairs []pair
	for port := 20000; port < 52000 && len(pairs) < 40; port++ {
		for _, p := range ringPoints(fmt.Sprintf("127.0.0.1:%d", port)) {
			if q, ok := seen[p]; ok && q != port {
				pairs = append(pairs, pair{q, port, p})
			} else {
				seen[p] = port
			}
		}
	}
	for _, pr := range pairs {
		f1, f2 := fakemc.New(), fakemc.New()
		a1, e1 := f1.ListenTCP(fmt.Sprintf("127.0.0.1:%d", pr.a))
		a2, e2 := f2.ListenTCP(fmt.Sprintf("127.0.0.1:%d", pr.b))
		if e1 == nil && e2 == nil {
			fakes, addrs, point = []*fakemc.Server{f1, f2}, []string{a1, a2}, pr.point
			break
		}
	}
	if fakes == nil {
		t.Skip("harness: could not bind a colliding pair of loopback ports")
	}
	f3 := fakemc.New()
	a3, err := f3.ListenTCP("127.0.0.1:0")
	if err != nil {
		t.Fatal(err)
	}
	fakes, addrs = append(fakes, f3), append(addrs, a3)
	return fakes, addrs, point
}

// TestC19EndToEnd: set through a cluster handler built with one node order,
// get through another handler built with a different order; the node labels
// (127.0.0.1:port) are chosen so that two of them share a ring point and the
// keys include some that hash into the shared point's arc.
func TestC19EndToEnd(t *testing.T) {
	rec := evid.For("C19")
	fakes, addrs, point := collidingLoopbackFakes(t)
	// keys: some that hash into the arc that ends at the shared point
	ring := []uint32{}
	for _, a := range addrs {
		ring = append(ring, ringPoints(a)...)
	}
	sort.Slice(ring, func(i, j int) bool { return ring[i] < ring[j] })
	var prev uint32
	for _, p := range ring {
		if p < point && p > prev {
			prev = p
		}
	}
	var keys []string
	inArc := 0
	for i := 0; len(keys) < 300 || inArc < 5; i++ {
		k := fmt.Sprintf("e2e-%d", i)
		d := md5.Sum([]byte(k))
		h := binary.LittleEndian.Uint32(d[0:4])
		if h > prev && h <= point {
			inArc++
			keys = append(keys, k)
		} else if len(keys) < 300 {
			keys = append(keys, k)
		}
		if i > 5000000 {
			break
		}
	}
	for _, pr := range hashCollidingKeys() {
		keys = append(keys, pr[0], pr[1])
	}
	// keys with the punctuation other proxies give a meaning to (hash tags,
	// namespaces): here the node is a function of the whole key
	for i := 0; i < 40; i++ {
		keys = append(keys, fmt.Sprintf("{user:%d}:profile", i), fmt.Sprintf("a{b%d}c", i), fmt.Sprintf("ns:%d|{}", i))
	}
	orders := permutations(3)
	for wi, wo := range orders {
		hw, err := cluster.NewHandler(permuted(addrs, wo), "w")
		if err != nil {
			t.Fatal(err)
		}
		for _, f := range fakes {
			f.Reset()
		}
		for _, k := range keys {
			if err := hw.Set(common.SetRequest{Key: []byte(k), Data: []byte("v-" + k), Flags: 7}); err != nil {
				t.Fatalf("harness: set: %v", err)
			}
		}
		for ri, ro := range orders {
			hr, err := cluster.NewHandler(permuted(addrs, ro), "r")
			if err != nil {
				t.Fatal(err)
			}
			for x := range keys {
				k := keys[x]
				if ri%2 == 1 { // every other reader asks in the opposite order
					k = keys[len(keys)-1-x]
				}
				// every third read is a gete: which command asks must not matter either
				kind := wire.Get
				if (x+ri)%3 == 2 {
					kind = wire.GetE
				}
				res, _ := execHandler(hr, wire.Cmd{Kind: kind, Keys: []string{k}}, 0)
				if res.Err != nil || res.Hits[0] == nil || string(res.Hits[0].Value) != "v-"+k || res.Hits[0].Flags != 7 {
					p := rec.Violation("TestC19EndToEnd", map[string]interface{}{"nodes": addrs, "set_order": wo, "get_order": ro, "key": k})
					t.Fatalf("C19 end to end: key %q set through a handler listing nodes as %v is not found by a %s through a handler listing them as %v (nodes %v, two of which share ring point %d): %+v; replay %s", k, permuted(addrs, wo), kind, permuted(addrs, ro), addrs, point, res, p)
				}
			}
			// multi-key gets in which stored keys follow keys that were never stored:
			// where a key is looked for must not depend on its neighbours in the request
			for i := 0; i+3 <= len(keys); i += 3 {
				batch := []string{fmt.Sprintf("never-stored-%d", i), keys[i], fmt.Sprintf("never-stored-%d", i+1), keys[i+1], keys[i+2]}
				res, _ := execHandler(hr, wire.Cmd{Kind: wire.Get, Keys: batch}, 0)
				for _, j := range []int{1, 3, 4} {
					if res.Err != nil || res.Hits[j] == nil || string(res.Hits[j].Value) != "v-"+batch[j] {
						p := rec.Violation("TestC19EndToEnd", map[string]interface{}{"nodes": addrs, "set_order": wo, "get_order": ro, "batch": batch, "position": j})
						t.Fatalf("C19 end to end: in the multi-key get %v the stored key %q (position %d) is not found (nodes %v, read through listing %v): %+v; replay %s", batch, batch[j], j, addrs, permuted(addrs, ro), res, p)
					}
				}
			}
			hr.Close()
			rec.Case(wi != ri, fmt.Sprintf("e2e|%v|%v", wo, ro), "end-to-end")
		}
		hw.Close()
	}
	// A node that refuses stores for a while (busy, temporary failure, out of
	// memory): a set that is answered with an error is the client's problem, but
	// a set that is acknowledged must be found by every other connection -- the
	// node that holds a key does not depend on what some node answered.
	for bi, status := range []uint16{0x85, 0x86, 0x82} {
		for _, f := range fakes {
			f.Reset()
		}
		busy := fakes[bi%len(fakes)]
		busy.Arm(&fakemc.Fault{Match: func(r *fakemc.Req) bool { return r.Opcode == fakemc.OpSet }, Kind: fakemc.FaultStatus, Status: status, Repeat: true})
		hw, err := cluster.NewHandler(addrs, "w")
		if err != nil {
			t.Fatal(err)
		}
		var acked []string
		refused := 0
		for _, k := range keys {
			if err := hw.Set(common.SetRequest{Key: []byte(k), Data: []byte("v-" + k), Flags: 7}); err == nil {
				acked = append(acked, k)
			} else {
				refused++
			}
		}
		hw.Close()
		busy.Disarm()
		hr, err := cluster.NewHandler(permuted(addrs, orders[(bi+1)%len(orders)]), "r")
		if err != nil {
			t.Fatal(err)
		}
		for _, k := range acked {
			res, _ := execHandler(hr, wire.Cmd{Kind: wire.Get, Keys: []string{k}}, 0)
			if res.Err != nil || res.Hits[0] == nil || string(res.Hits[0].Value) != "v-"+k {
				p := rec.Violation("TestC19EndToEnd", map[string]interface{}{"nodes": addrs, "node_refusing_stores": addrs[bi%len(fakes)], "status": status, "key": k})
				t.Fatalf("C19 end to end: while node %s answered every store with status %#x, the set of key %q was acknowledged; another connection does not find the key: %+v (nodes %v, %d sets refused, %d acknowledged); replay %s", addrs[bi%len(fakes)], status, k, res, addrs, refused, len(acked), p)
			}
		}
		hr.Close()
		rec.Case(refused > 0 && len(acked) > 0, fmt.Sprintf("e2e-busy|%d|%#x|%d", bi, status, refused), "end-to-end-node-refusing-stores")
	}
	// A connection set up while one node cannot be reached: either there is no
	// handler (the client connection is refused, which is what the code does), or
	// the handler routes as every other connection does -- a key that was stored
	// through a complete handler must not be looked for on some other node.
	hw, err := cluster.NewHandler(addrs, "w")
	if err != nil {
		t.Fatal(err)
	}
	for _, f := range fakes {
		f.Reset()
	}
	for _, k := range keys {
		if err := hw.Set(common.SetRequest{Key: []byte(k), Data: []byte("v-" + k), Flags: 7}); err != nil {
			t.Fatalf("harness: set: %v", err)
		}
	}
	partial := 0
	for down := range fakes {
		fakes[down].StopListening()
		hp, err := cluster.NewHandler(addrs, "p")
		if _, lerr := fakes[down].ListenTCP(addrs[down]); lerr != nil {
			t.Fatalf("harness: cannot listen on %s again: %v", addrs[down], lerr)
		}
		if err != nil {
			rec.Case(true, fmt.Sprintf("e2e-down|%d|refused", down), "end-to-end-node-unreachable-at-connect:no-handler")
			continue
		}
		partial++
		for _, k := range keys {
			res, _ := execHandler(hp, wire.Cmd{Kind: wire.Get, Keys: []string{k}}, 0)
			if res.Err == nil && (res.Hits[0] == nil || string(res.Hits[0].Value) != "v-"+k) {
				p := rec.Violation("TestC19EndToEnd", map[string]interface{}{"nodes": addrs, "unreachable_at_connect": addrs[down], "key": k})
				t.Fatalf("C19 end to end: a handler built while node %s refused connections looks for key %q (stored through a complete handler) on a different node: %+v; replay %s", addrs[down], k, res, p)
			}
		}
		hp.Close()
		rec.Case(true, fmt.Sprintf("e2e-down|%d|handler", down), "end-to-end-node-unreachable-at-connect:handler-routes-alike")
	}
	hw.Close()
	rec.Sample(true, map[string]interface{}{"end_to_end_nodes": addrs, "handlers_built_with_a_node_down": partial, "shared_ring_point": point, "keys": len(keys), "keys_in_shared_arc": inArc, "orders": len(orders) * len(orders)})
}
