package props

import (
	"bytes"
	"fmt"
	"runtime"
	"sort"
	"strings"
	"testing"
	"time"

	"pgregory.net/rapid"

	"verifharness/evid"
	"verifharness/fakemc"
	"verifharness/stack"
	"verifharness/wire"
)

// ---------- programs ----------

type c10Program struct {
	Name string
	Cmds []wire.Cmd
}

// prepared state: "hot" is in L1 and L2, "cold" only in L2 (L1 evicted), "none" absent.
func c10Value(tag string, big bool) []byte {
	n := 40
	if big {
		n = 2600 // three chunks for short keys
	}
	v := mkValue(evidHash32(tag), n)
	copy(v, "<"+tag+">")
	return v
}

func evidHash32(s string) uint32 { return uint32(evid.Hash(s)) }

func c10Programs(binary, big bool) []c10Program {
	var ps []c10Program
	add := func(name string, cmds ...wire.Cmd) { ps = append(ps, c10Program{name, cmds}) }
	w := func(tag string) []byte { return c10Value("w-"+tag, big) }
	get := func(keys ...string) wire.Cmd { return wire.Cmd{Kind: wire.Get, Keys: keys} }
	for _, k := range []string{"hot", "cold", "none"} {
		add("set-"+k, wire.Cmd{Kind: wire.Set, Key: k, Value: w("set" + k), Flags: 5}, get(k))
		add("add-"+k, wire.Cmd{Kind: wire.Add, Key: k, Value: w("add" + k), Flags: 6}, get(k))
		add("replace-"+k, wire.Cmd{Kind: wire.Replace, Key: k, Value: w("rep" + k), Flags: 7}, get(k))
		add("append-"+k, wire.Cmd{Kind: wire.Append, Key: k, Value: []byte("<app-" + k + ">")}, get(k))
		add("prepend-"+k, wire.Cmd{Kind: wire.Prepend, Key: k, Value: []byte("<pre-" + k + ">")}, get(k))
		add("delete-"+k, wire.Cmd{Kind: wire.Delete, Key: k}, get(k))
		add("touch-"+k, wire.Cmd{Kind: wire.Touch, Key: k, Exptime: 5000}, get(k))
		add("get-"+k, get(k), get(k))
		if binary {
			add("gat-"+k, wire.Cmd{Kind: wire.Gat, Key: k, Exptime: 5000}, get(k))
		}
	}
	add("get-multi", get("hot", "cold", "none", "hot"), get("cold"))
	if binary {
		add("get-quiet-batch", wire.Cmd{Kind: wire.Get, Keys: []string{"cold", "none", "hot"}, NoopEnd: true}, get("hot"))
		add("set-quiet", wire.Cmd{Kind: wire.Set, Key: "hot", Value: w("setq"), Flags: 8, Quiet: true}, get("hot"))
	}
	add("set-set", wire.Cmd{Kind: wire.Set, Key: "hot", Value: w("s1"), Flags: 1}, wire.Cmd{Kind: wire.Set, Key: "hot", Value: w("s2"), Flags: 2}, get("hot"))
	add("delete-add", wire.Cmd{Kind: wire.Delete, Key: "hot"}, wire.Cmd{Kind: wire.Add, Key: "hot", Value: w("da"), Flags: 3}, get("hot"))
	return ps
}

// ---------- faults ----------

type c10Fault struct {
	Tier   string `json:"tier"` // L1 | L2
	Req    int    `json:"req"`  // index among the program connection's requests to that tier
	Kind   string `json:"kind"`
	Status uint16 `json:"status,omitempty"`
	Bytes  int    `json:"bytes,omitempty"`
}

func (f c10Fault) String() string {
	switch f.Kind {
	case "status":
		return fmt.Sprintf("%s#%d:status-%#x", f.Tier, f.Req, f.Status)
	case "close-mid-reply":
		return fmt.Sprintf("%s#%d:close-mid-reply@%d", f.Tier, f.Req, f.Bytes)
	}
	return fmt.Sprintf("%s#%d:%s", f.Tier, f.Req, f.Kind)
}

var c10Statuses = []uint16{0x01, 0x02, 0x03, 0x04, 0x05, 0x06, 0x20, 0x81, 0x82, 0x83, 0x84, 0x85, 0x86}

// lyingStatus: the injected status is one the backend opcode it hit legitimately
// answers with when the key is absent (or present, for add) -- injected without
// processing, the backend then "lies" about its contents, and what the
// orchestrator does with a believable answer is not judged for staleness.
// Any other status is a refusal and must be treated as one.
func lyingStatus(op byte, s uint16, chunkedTier bool) bool {
	if chunkedTier {
		// one handler call is many backend requests there, and the handler turns
		// 0x01/0x02/0x05 on any of them into the believable miss/exists answer of the call
		return s == 0x01 || s == 0x02 || s == 0x05
	}
	switch op {
	case fakemc.OpAdd, fakemc.OpAddQ:
		return s == 0x02
	case fakemc.OpAppend, fakemc.OpPrepend, 0x19, 0x1a:
		return s == 0x01 || s == 0x05
	case fakemc.OpSet, fakemc.OpSetQ:
		return false
	}
	return s == 0x01
}

func c10FaultKinds() []c10Fault {
	var out []c10Fault
	for _, s := range c10Statuses {
		out = append(out, c10Fault{Kind: "status", Status: s})
	}
	out = append(out, c10Fault{Kind: "close-before"}, c10Fault{Kind: "close-after-proc"}, c10Fault{Kind: "close-after-reply"})
	for _, b := range []int{1, 23, 24, 25, 28, 32, -1} { // 28 / 32: right behind the extras of a get / gat and of a gete reply
		out = append(out, c10Fault{Kind: "close-mid-reply", Bytes: b})
	}
	return out
}

// ---------- set-valued model ----------

type c10State struct {
	present bool
	value   string
	flags   uint32
}

type c10Model map[string]map[c10State]bool // key -> possible states

func (m c10Model) clone() c10Model {
	out := c10Model{}
	for k, ss := range m {
		out[k] = map[c10State]bool{}
		for s := range ss {
			out[k][s] = true
		}
	}
	return out
}

// step applies a command to one state and returns (new state, would succeed).
func c10Step(s c10State, c wire.Cmd) (c10State, bool) {
	switch c.Kind {
	case wire.Set:
		return c10State{true, string(c.Value), c.Flags}, true
	case wire.Add:
		if s.present {
			return s, false
		}
		return c10State{true, string(c.Value), c.Flags}, true
	case wire.Replace:
		if !s.present {
			return s, false
		}
		return c10State{true, string(c.Value), c.Flags}, true
	case wire.Append:
		if !s.present {
			return s, false
		}
		return c10State{true, s.value + string(c.Value), s.flags}, true
	case wire.Prepend:
		if !s.present {
			return s, false
		}
		return c10State{true, string(c.Value) + s.value, s.flags}, true
	case wire.Delete:
		if !s.present {
			return s, false
		}
		return c10State{}, true
	case wire.Touch, wire.Gat:
		return s, s.present
	}
	return s, true
}

// observe updates the possible states of c's key given what the client saw.
// faultSeen: the fault has fired already (from then on outcomes may be fuzzy).
func (m c10Model) observe(c wire.Cmd, class wire.Class, faultSeen bool) {
	if c.Kind == wire.Get {
		return
	}
	k := c.Key
	next := map[c10State]bool{}
	for s := range m[k] {
		ns, ok := c10Step(s, c)
		switch {
		case !faultSeen:
			next[ns] = true // deterministic
		case class == wire.OK:
			// acknowledged: must have been applied (where the precondition held)
			if ok {
				next[ns] = true
			} else {
				next[s] = true
			}
		default:
			// failure, error or EOF after a fault: may or may not have been applied
			next[s] = true
			next[ns] = true
		}
	}
	m[k] = next
}

func (m c10Model) allows(key string, h *wire.Hit) bool {
	for s := range m[key] {
		if s.present && s.value == string(h.Value) && s.flags == h.Flags {
			return true
		}
	}
	return false
}

// ---------- one case ----------

type c10Case struct {
	Port    int          `json:"port"` // port the program connection uses: 0 main, 1 batch
	Cfg     stack.Config `json:"cfg"`
	Binary  bool         `json:"binary"`
	Big     bool         `json:"big"`
	Program string       `json:"program"`
	Fault   *c10Fault    `json:"fault"`
}

type c10Result struct {
	ReqsL1, ReqsL2 int
	Roles          []string // "L1 set hot", ... of the program connection's backend requests, in order
	Fired          bool
	Violation      string
	Clause         string
	Signature      string
}

func opName(op byte) string {
	names := map[byte]string{0: "get", 1: "set", 2: "add", 3: "replace", 4: "delete", 9: "getq", 0xa: "noop", 0xe: "append", 0xf: "prepend", 0x1c: "touch", 0x1d: "gat", 0x1e: "gatq", 0x40: "gete", 0x41: "geteq"}
	if n, ok := names[op]; ok {
		return n
	}
	return fmt.Sprintf("op%#x", op)
}

func runC10(c c10Case) (res c10Result) {
	st := stack.Get(c.Cfg)
	st.Reset()
	progs := c10Programs(c.Binary, c.Big)
	var prog *c10Program
	for i := range progs {
		if progs[i].Name == c.Program {
			prog = &progs[i]
		}
	}
	if prog == nil {
		res.Violation = "harness: unknown program " + c.Program
		return
	}
	hasL2 := st.L2 != nil
	fail := func(clause, format string, args ...interface{}) c10Result {
		res.Clause = clause
		res.Violation = fmt.Sprintf(format, args...)
		return res
	}
	// prepare state through a fault-free connection
	model := c10Model{"hot": {}, "cold": {}, "none": {c10State{}: true}, "by": {c10State{}: true}}
	setup := wire.NewClient(st.Dial(0), true)
	for _, k := range []string{"hot", "cold"} {
		v := c10Value("prep-"+k, c.Big)
		if o, err := setup.Do(wire.Cmd{Kind: wire.Set, Key: k, Value: v, Flags: 11}); err != nil || o.Class != wire.OK {
			setup.Close()
			return fail("setup", "harness: setup set failed: %v %s", err, o)
		}
		model[k] = map[c10State]bool{{true, string(v), 11}: true}
	}
	setup.Close()
	if hasL2 {
		// cold: only in L2
		if c.Cfg.L1 == "chunked" {
			st.L1.Evict("cold-meta", "cold-0", "cold-1", "cold-2")
		} else {
			st.L1.Evict("cold")
		}
	}
	// bystander and program connections; the backend connections opened for the
	// program connection are the newest ones at each fake
	by := wire.NewClient(st.Dial(0), c.Binary)
	defer by.Close()
	byVal := c10Value("bystander", false)
	if o, err := by.Do(wire.Cmd{Kind: wire.Set, Key: "by", Value: byVal, Flags: 77}); err != nil || o.Class != wire.OK {
		return fail("b", "bystander set before the fault: %v %s", err, o)
	}
	waitAccepts := func(f *fakemc.Server, n int) {
		for i := 0; i < 2000 && f.Accepts() < n; i++ {
			time.Sleep(200 * time.Microsecond)
		}
	}
	a1 := st.L1.Accepts()
	a2 := 0
	if hasL2 {
		a2 = st.L2.Accepts()
	}
	cl := wire.NewClient(st.Dial(c.Port), c.Binary)
	cl.Timeout = hangBound()
	defer cl.Close()
	waitAccepts(st.L1, a1+1)
	connL1, connL2 := st.L1.Accepts()-1, -1
	if hasL2 {
		waitAccepts(st.L2, a2+1)
		connL2 = st.L2.Accepts() - 1
	}
	st.L1.ResetLog()
	if hasL2 {
		st.L2.ResetLog()
	}
	// arm
	var target *fakemc.Server
	faultedOp := byte(0xff) // opcode of the backend request the fault hit
	if c.Fault != nil {
		count := 0
		conn := connL1
		target = st.L1
		if c.Fault.Tier == "L2" {
			conn, target = connL2, st.L2
		}
		ff := &fakemc.Fault{Status: c.Fault.Status, Bytes: c.Fault.Bytes}
		ff.Kind = map[string]fakemc.FaultKind{"status": fakemc.FaultStatus, "close-before": fakemc.FaultCloseBefore, "close-after-proc": fakemc.FaultCloseAfterProc,
			"close-mid-reply": fakemc.FaultCloseMidReply, "close-after-reply": fakemc.FaultCloseAfterReply}[c.Fault.Kind]
		want := c.Fault.Req
		ff.Match = func(r *fakemc.Req) bool {
			if r.Conn != conn {
				return false
			}
			count++
			if count-1 == want {
				faultedOp = r.Opcode
			}
			return count-1 == want
		}
		target.Arm(ff)
	}
	// run the program
	closed := false
	ackedTTL := map[string]int64{}
	for i, cmd := range prog.Cmds {
		fired := target != nil && target.FaultsFired() > 0
		o, err := cl.Do(cmd)
		firedAfter := target != nil && target.FaultsFired() > 0
		if err != nil {
			var dump [1 << 16]byte
			n := runtime.Stack(dump[:], true)
			noteHang()
			return fail("a", "command %d (%s) was not answered and the connection not closed within %v; goroutines:\n%s", i, cmd, cl.Timeout, dump[:n])
		}
		if len(o.Problems) > 0 {
			return fail("a", "command %d (%s): malformed or unattributable reply: %v (trace %v)", i, cmd, o.Problems, o.Trace)
		}
		if !fired && !firedAfter {
			// fault-free so far: exact model
			var only c10State
			for s := range model[cmd.Key] {
				only = s
			}
			if cmd.Kind != wire.Get {
				_, ok := c10Step(only, cmd)
				wantClass := wire.OK
				if !ok && cmd.Kind != wire.Gat {
					wantClass = wire.Fail
				}
				if o.Class != wantClass {
					return fail("a", "before the fault: command %d (%s) answered %s, expected %s (%s)", i, cmd, o.Class, wantClass, o)
				}
			}
		}
		// any value returned must be one the model allows for that key (clause d;
		// not judged when the injected fault is a lying backend status)
		lying := c.Fault != nil && c.Fault.Kind == "status" && lyingStatus(faultedOp, c.Fault.Status, c.Fault.Tier == "L1" && st.Cfg.L1 == "chunked")
		for _, h := range o.Hits {
			if lying && (fired || firedAfter) {
				break
			}
			h := h
			if !model.allows(h.Key, &h) {
				return fail("d", "command %d (%s) returned for key %q a value (%s, flags %d) that is not a possible current value %v", i, cmd, h.Key, short(h.Value), h.Flags, modelValues(model[h.Key]))
			}
		}
		if (cmd.Kind == wire.Touch && o.Class == wire.OK) || (cmd.Kind == wire.Gat && o.Class == wire.OK && len(o.Hits) == 1) {
			// an acknowledged change of the expiry: every tier that still holds the key owes it
			ackedTTL[cmd.Key] = nowUnix() + int64(cmd.Exptime)
		} else if cmd.Kind != wire.Get {
			delete(ackedTTL, cmd.Key)
		}
		model.observe(cmd, o.Class, fired || firedAfter)
		if o.Class == wire.Closed {
			closed = true
			break
		}
	}
	if target != nil {
		res.Fired = target.FaultsFired() > 0
		target.Disarm()
	}
	// (a, reply stream) if the connection is still open it must be in step: the
	// next reply on it belongs to the next request, nothing is left over from the
	// program (a request answered twice shows here)
	if !closed {
		o, err := cl.Do(wire.Cmd{Kind: wire.Version})
		if err != nil {
			var dump [1 << 16]byte
			n := runtime.Stack(dump[:], true)
			noteHang()
			return fail("a", "after the program the connection is open but a version request is not answered within %v; goroutines:\n%s", cl.Timeout, dump[:n])
		}
		if o.Class != wire.Closed && (o.Class != wire.OK || len(o.Problems) > 0) {
			return fail("a", "after the program the connection is open but out of step: a version request is answered with %s -- a reply left over from the program (some request was answered twice)", o)
		}
	}
	for _, r := range st.L1.Log() {
		if r.Conn == connL1 {
			res.ReqsL1++
			res.Roles = append(res.Roles, "L1 "+opName(r.Opcode)+" "+r.Key)
		}
	}
	if hasL2 {
		for _, r := range st.L2.Log() {
			if r.Conn == connL2 {
				res.ReqsL2++
				res.Roles = append(res.Roles, "L2 "+opName(r.Opcode)+" "+r.Key)
			}
		}
	}
	// (d, expiry) an acknowledged touch / get-and-touch holds on every tier that still
	// has the key -- unless the backend lied (a believable "not found" to the touch)
	if c.Fault == nil || !(c.Fault.Kind == "status" && lyingStatus(faultedOp, c.Fault.Status, c.Fault.Tier == "L1" && st.Cfg.L1 == "chunked")) {
		for k, want := range ackedTTL {
			tiers := []struct {
				name    string
				f       *fakemc.Server
				chunked bool
			}{{"L1", st.L1, st.Cfg.L1 == "chunked"}}
			if hasL2 {
				tiers = append(tiers, struct {
					name    string
					f       *fakemc.Server
					chunked bool
				}{"L2", st.L2, false})
			}
			for _, tr := range tiers {
				live := tr.f.Live()
				for name, e := range live {
					if (!tr.chunked && name == k) || (tr.chunked && derivedFrom(name, k)) {
						if !deadlineClose(e.Deadline, want) {
							return fail("d", "the expiry change of %q was acknowledged, but %s entry %q expires at %d (raw exptime %d), not at %d", k, tr.name, name, e.Deadline, e.RawExp, want)
						}
					}
				}
			}
		}
	}
	// (b) the bystander is unaffected
	o, err := by.Do(wire.Cmd{Kind: wire.Get, Keys: []string{"by"}})
	if err != nil || o.Class != wire.OK || len(o.Problems) > 0 || len(o.Hits) != 1 || !bytes.Equal(o.Hits[0].Value, byVal) || o.Hits[0].Flags != 77 {
		return fail("b", "bystander connection after the fault: %v %s", err, o)
	}
	// (d) a fresh fault-free connection reads every key
	if c.Fault == nil || !(c.Fault.Kind == "status" && lyingStatus(faultedOp, c.Fault.Status, c.Fault.Tier == "L1" && st.Cfg.L1 == "chunked")) {
		fresh := wire.NewClient(st.Dial(0), true)
		defer fresh.Close()
		for _, k := range []string{"hot", "cold", "none"} {
			for pass := 0; pass < 2; pass++ { // second read exercises whatever the first one re-populated
				o, err := fresh.Do(wire.Cmd{Kind: wire.Get, Keys: []string{k}})
				if err != nil || o.Class != wire.OK || len(o.Problems) > 0 {
					return fail("d", "fresh connection get %q: %v %s", k, err, o)
				}
				for _, h := range o.Hits {
					h := h
					if !model.allows(k, &h) {
						return fail("d", "after the fault a fresh connection reads for key %q the value (%s, flags %d); possible current values are %v", k, short(h.Value), h.Flags, modelValues(model[k]))
					}
				}
			}
		}
	}
	return res
}

func modelValues(ss map[c10State]bool) []string {
	var out []string
	for s := range ss {
		if s.present {
			out = append(out, fmt.Sprintf("(%s, flags %d)", short([]byte(s.value)), s.flags))
		} else {
			out = append(out, "absent")
		}
	}
	sort.Strings(out)
	return out
}

type c10Cfg struct {
	Cfg  stack.Config
	Port int
}

func c10Configs() []c10Cfg {
	var out []c10Cfg
	for _, l1 := range []string{"std", "chunked"} {
		out = append(out,
			c10Cfg{stack.Config{Shape: "l1only", Lock: "nolock", L1: l1, L2: "-"}, 0},
			c10Cfg{stack.Config{Shape: "l1l2", Lock: "nolock", L1: l1, L2: "std"}, 0},
			c10Cfg{stack.Config{Shape: "l1l2", Lock: "lock1r", L1: l1, L2: "std", Conc: 2}, 0},
			c10Cfg{stack.Config{Shape: "l1l2+batch", Lock: "nolock", L1: l1, L2: "std"}, 1},
		)
	}
	return out
}

func (c c10Case) signature(res c10Result, roles []string) string {
	role := "?"
	if c.Fault != nil {
		idx := -1
		n := 0
		for i, r := range roles {
			if strings.HasPrefix(r, c.Fault.Tier+" ") {
				if n == c.Fault.Req {
					idx = i
				}
				n++
			}
		}
		if idx >= 0 {
			parts := strings.Fields(roles[idx])
			role = parts[0] + "." + parts[1]
		}
	}
	kind := "none"
	if c.Fault != nil {
		kind = c.Fault.Kind
		if kind == "status" {
			kind = fmt.Sprintf("status-%#x", c.Fault.Status)
		}
	}
	shape := c.Cfg.Shape
	if c.Port == 1 {
		shape += "@batch"
	}
	return fmt.Sprintf("C10:%s/%s:%s:%s/%s:%s", shape, c.Cfg.L1, c.Program, role, kind, res.Clause)
}

// TestC10Enumerate: every program x every backend request it generates x every fault kind.
func TestC10Enumerate(t *testing.T) {
	rec := evid.For("C10")
	shard, shards := evid.Shard()
	idx := 0
	cases, fired := 0, 0
	for _, cc := range c10Configs() {
		cfg := cc.Cfg
		for _, binary := range []bool{true, false} {
			big := cfg.L1 == "chunked"
			for _, prog := range c10Programs(binary, big) {
				idx++
				if idx%shards != shard {
					continue
				}
				base := c10Case{Cfg: cfg, Port: cc.Port, Binary: binary, Big: big, Program: prog.Name}
				r0 := runC10(base)
				if r0.Violation != "" {
					p := rec.Violation("TestC10Replay", base)
					t.Errorf("C10 %s bin=%v program %s, fault-free: %s; replay %s", cfg, binary, prog.Name, r0.Violation, p)
					continue
				}
				tiers := []struct {
					name string
					n    int
				}{{"L1", r0.ReqsL1}, {"L2", r0.ReqsL2}}
				for _, tier := range tiers {
					for req := 0; req < tier.n; req++ {
						for _, fk := range c10FaultKinds() {
							if !thorough() && fk.Kind == "status" && !(fk.Status == 0x01 || fk.Status == 0x03 || fk.Status == 0x05 || fk.Status == 0x82 || fk.Status == 0x86) {
								continue // quick tier: a representative subset of statuses
							}
							f := fk
							f.Tier, f.Req = tier.name, req
							c := base
							c.Fault = &f
							res := runC10(c)
							cases++
							if res.Fired {
								fired++
							}
							total := r0.ReqsL1 + r0.ReqsL2
							nt := res.Fired && total > 1 && !(tier.name == "L2" && req == tier.n-1 && r0.ReqsL1 == 0)
							rec.Case(nt, fmt.Sprintf("%s|%v|%s|%s", cfg, binary, prog.Name, f), "tier:"+tier.name, "fault:"+fk.Kind)
							if res.Violation != "" {
								sig := c.signature(res, r0.Roles)
								if rec.Known(sig) {
									continue
								}
								p := rec.Violation("TestC10Replay", c)
								t.Errorf("C10 %s bin=%v program %s fault %s (backend requests: %v): clause %s: %s\nsignature %s; replay %s", cfg, binary, prog.Name, f, r0.Roles, res.Clause, res.Violation, sig, p)
								if len(rec.Violations) > 20 {
									return
								}
							}
							if nt && rec.WantSample(true) {
								rec.Sample(true, map[string]interface{}{"config": cfg.String(), "binary": binary, "program": cmdsString(prog.Cmds), "backend_requests": r0.Roles, "fault": f.String()})
							}
						}
					}
				}
			}
		}
	}
	rec.ClassN("single-fault-cases", int64(cases))
	rec.ClassN("faults-fired", int64(fired))
	rec.MarkExhaustive("every (program, tier, backend request index, fault kind) of the catalogue; quick tier uses 5 of the 13 statuses")
}

func TestC10Replay(t *testing.T) {
	path := evid.ReplayFile()
	if path == "" {
		t.Skip("no replay file")
	}
	var c c10Case
	if _, err := evid.LoadReplay(path, &c); err != nil {
		t.Fatal(err)
	}
	res := runC10(c)
	if res.Violation != "" {
		base := c
		base.Fault = nil
		r0 := runC10(base)
		sig := c.signature(res, r0.Roles)
		if evid.For("C10").Known(sig) {
			t.Logf("known finding %s", sig)
			return
		}
		t.Fatalf("C10 replay %+v fault %v: clause %s: %s (signature %s)", c, c.Fault, res.Clause, res.Violation, sig)
	}
}

// TestC10Random: longer drawn programs with a drawn fault point (thorough).
func TestC10Random(t *testing.T) {
	rec := evid.For("C10")
	rapid.Check(t, func(t *rapid.T) {
		cc := rapid.SampledFrom(c10Configs()).Draw(t, "cfg")
		cfg := cc.Cfg
		binary := rapid.Bool().Draw(t, "binary")
		big := cfg.L1 == "chunked"
		progs := c10Programs(binary, big)
		prog := rapid.SampledFrom(progs).Draw(t, "program")
		f := rapid.SampledFrom(c10FaultKinds()).Draw(t, "fault")
		f.Tier = rapid.SampledFrom([]string{"L1", "L2"}).Draw(t, "tier")
		if cfg.L2 == "-" {
			f.Tier = "L1"
		}
		f.Req = rapid.IntRange(0, 9).Draw(t, "req")
		c := c10Case{Cfg: cfg, Port: cc.Port, Binary: binary, Big: big, Program: prog.Name, Fault: &f}
		res := runC10(c)
		if res.Violation != "" {
			base := c
			base.Fault = nil
			r0 := runC10(base)
			if sig := c.signature(res, r0.Roles); !rec.Known(sig) {
				t.Fatalf("C10 %s bin=%v program %s fault %s: clause %s: %s (signature %s)", cfg, binary, prog.Name, f, res.Clause, res.Violation, sig)
			}
		}
		rec.Case(res.Fired, fmt.Sprintf("rnd|%s|%v|%s|%s", cfg, binary, prog.Name, f), "random")
	})
}
