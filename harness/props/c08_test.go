package props

import (
	"bytes"
	"fmt"
	"strings"
	"testing"

	"pgregory.net/rapid"

	"verifharness/evid"
	"verifharness/refmodel"
	"verifharness/stack"
	"verifharness/wire"
)

var badTextLines = []string{
	"set a abc 0 5\r\n",
	"set a 0 abc 5\r\n",
	"set a 0 0 abc\r\n",
	"set a 0 0 -1\r\n",
	"add b 0 0 99999999999\r\n",
	"set a 4294967296 0 1\r\n",
	"touch a abc\r\n",
	"touch a\r\n",
	"set a 0 0\r\n",
	"delete\r\n",
	"delete a b\r\n",
	"get\r\n",
	"frobnicate\r\n",
	"incr a 1\r\n",
	"flush_all\r\n",
	"version 1\r\n",
}

// pipeItem is one element of a pipeline with what the model expects for it.
type pipeItem struct {
	Cmd    wire.Cmd
	Expect refmodel.Expect
	IsErr  bool // an error reply is expected (bad line, unknown command)
}

func genPipeline(t *rapid.T, sc stackCase, maxLen int, now int64) ([]wire.Cmd, []string) {
	keys := genAlphabet(t)
	opts := cmdGenOpts{Binary: sc.Binary, Keys: keys, TwoPorts: false}
	n := rapid.IntRange(2, maxLen).Draw(t, "len")
	var cmds []wire.Cmd
	opq := uint32(100)
	for i := 0; i < n; i++ {
		var c wire.Cmd
		switch r := rapid.IntRange(0, 19).Draw(t, "special"); {
		case r == 0:
			c = wire.Cmd{Kind: wire.Noop}
		case r == 1:
			c = wire.Cmd{Kind: wire.Version}
		case r == 2:
			c = wire.Cmd{Kind: wire.Stat}
		case r == 6:
			// a get of many keys (with an alphabet of 250-byte keys: a text line far beyond 4 KiB)
			c = wire.Cmd{Kind: wire.Get}
			for j := rapid.IntRange(18, 40).Draw(t, "manyKeys"); j > 0; j-- {
				c.Keys = append(c.Keys, rapid.SampledFrom(keys).Draw(t, "gkey"))
			}
			if sc.Binary {
				c.NoopEnd = rapid.Bool().Draw(t, "noopEnd")
			}
		case r <= 5 && !sc.Binary:
			c = wire.Cmd{Kind: wire.RawBytes, Raw: []byte(rapid.SampledFrom(badTextLines).Draw(t, "badLine"))}
		case r == 3 && sc.Binary && sc.Cfg.Shape == "l1only" && sc.Cfg.L1 != "chunked": // chunked.GetE panics on purpose ("not supported in Rend chunked mode")
			c = wire.Cmd{Kind: wire.GetE, Keys: []string{rapid.SampledFrom(keys).Draw(t, "gkey")}, NoopEnd: rapid.Bool().Draw(t, "noopEnd")}
		default:
			c = genCmd(t, opts, now)
		}
		if sc.Binary {
			c.Opaque = opq
			opq += 64 // room for the per-key opaques of a get of up to 40 keys
		}
		cmds = append(cmds, c)
	}
	return cmds, keys
}

// checkBinFrames validates the frames attributed (by opaque) to one request.
func checkBinFrames(c wire.Cmd, exp refmodel.Expect, frames []wire.BinReply) string {
	one := func() (wire.BinReply, string) {
		if len(frames) != 1 {
			return wire.BinReply{}, fmt.Sprintf("%d reply frames, want exactly 1: %v", len(frames), frames)
		}
		return frames[0], ""
	}
	switch c.Kind {
	case wire.Set, wire.Add, wire.Replace, wire.Append, wire.Prepend, wire.Delete, wire.Touch:
		wantFail := exp.Class == refmodel.Fail
		if c.Quiet && !wantFail {
			if len(frames) != 0 {
				return fmt.Sprintf("quiet success answered: %v", frames)
			}
			return ""
		}
		f, msg := one()
		if msg != "" {
			return msg
		}
		gotFail := f.Status == 1 || f.Status == 2 || f.Status == 5
		if f.Status != 0 && !gotFail {
			return "unexpected error status: " + f.String()
		}
		if gotFail != wantFail {
			return fmt.Sprintf("status %#x, model says %s", f.Status, exp.Class)
		}
		if len(f.Extras)+len(f.Key)+len(f.Value) != 0 {
			return "simple reply with a body: " + f.String()
		}
	case wire.Gat:
		f, msg := one()
		if msg != "" {
			return msg
		}
		if exp.Hits[0] == nil {
			if f.Status != 1 {
				return "gat miss answered with " + f.String()
			}
			return ""
		}
		if f.Status != 0 || len(f.Extras) != 4 || !bytes.Equal(f.Value, exp.Hits[0].Value) || f.Flags() != exp.Hits[0].Flags {
			return fmt.Sprintf("gat hit answered with %s, model value %s flags %d", f, short(exp.Hits[0].Value), exp.Hits[0].Flags)
		}
	case wire.Get, wire.GetE:
		n := len(c.Keys)
		seen := make([]int, n+1)
		for _, f := range frames {
			idx := int(f.Opaque - c.Opaque)
			if idx < 0 || idx > n {
				return "frame with foreign opaque: " + f.String()
			}
			seen[idx]++
			if idx == n {
				if !c.NoopEnd || f.Opcode != 0x0a || f.Status != 0 || len(f.Value) != 0 {
					return "unexpected terminator frame: " + f.String()
				}
				continue
			}
			h := exp.Hits[idx]
			quiet := c.NoopEnd || idx < n-1
			switch {
			case h != nil:
				wantExt := 4
				if c.Kind == wire.GetE {
					wantExt = 8
				}
				if f.Status != 0 || len(f.Extras) != wantExt || !bytes.Equal(f.Value, h.Value) || f.Flags() != h.Flags {
					return fmt.Sprintf("hit for key %d answered with %s, model value %s flags %d", idx, f, short(h.Value), h.Flags)
				}
			case quiet:
				return "quiet miss answered: " + f.String()
			default:
				if f.Status != 1 {
					return "non-quiet miss answered with " + f.String()
				}
			}
		}
		for idx := 0; idx < n; idx++ {
			want := 0
			if exp.Hits[idx] != nil || (!c.NoopEnd && idx == n-1) {
				want = 1
			}
			if seen[idx] != want {
				return fmt.Sprintf("key %d (%q): %d reply frames, want %d", idx, c.Keys[idx], seen[idx], want)
			}
		}
		if c.NoopEnd && seen[n] != 1 {
			return fmt.Sprintf("%d terminators for a quiet batch, want exactly 1", seen[n])
		}
	case wire.Noop, wire.Version:
		f, msg := one()
		if msg != "" {
			return msg
		}
		if f.Status != 0 {
			return "answered with " + f.String()
		}
	case wire.Stat:
		if len(frames) < 1 {
			return "no stat frames"
		}
		last := frames[len(frames)-1]
		if last.Status != 0 || len(last.Key)+len(last.Value) != 0 {
			return "stat reply not closed by an empty frame: " + last.String()
		}
		for _, f := range frames[:len(frames)-1] {
			if f.Status != 0 || len(f.Key) == 0 {
				return "bad stat frame " + f.String()
			}
		}
	}
	return ""
}

func TestC08(t *testing.T) {
	rec := evid.For("C08")
	maxLen := 12
	if thorough() {
		maxLen = 40
	}
	rapid.Check(t, func(t *rapid.T) {
		sc := genStackCase(t, []string{"std", "std", "std", "chunked", "batched"})
		st := stack.Get(sc.Cfg)
		ses := newSession(st, sc.Binary)
		defer ses.close()
		port := 0
		if sc.Cfg.Shape == "l1l2+batch" {
			port = rapid.IntRange(0, 1).Draw(t, "port") // the whole pipeline runs on the main or on the batch port
		}
		cl := ses.client(port)
		now := nowUnix()
		cmds, keys := genPipeline(t, sc, maxLen, now)
		for i := range cmds {
			cmds[i].Port = port
		}
		model := refmodel.New()
		// state before the pipeline: each key absent, hot (in every tier) or cold
		// (stored, then lost by L1 -- the same thing to a client)
		var pre []string
		if rapid.Bool().Draw(t, "prestate") {
			setup := wire.NewClient(st.Dial(0), true)
			for _, k := range keys {
				state := rapid.SampledFrom([]string{"absent", "hot", "cold"}).Draw(t, "pre-"+k)
				if state == "absent" {
					continue
				}
				c := wire.Cmd{Kind: wire.Set, Key: k, Value: []byte("pre-" + k[:min(len(k), 8)]), Flags: 21}
				if o, err := setup.Do(c); err != nil || o.Class != wire.OK {
					undecided(t, rec, fmt.Sprintf("C08 %s: pre-state set failed: %v %s", sc, err, o))
				}
				model.Apply(c, now)
				if state == "cold" && st.L2 != nil {
					st.L1.Evict(k, k+"-meta", k+"-0", k+"-1")
				}
				pre = append(pre, k[:min(len(k), 8)]+"="+state)
			}
			setup.Close()
		}
		exps := make([]refmodel.Expect, len(cmds))
		var burst []byte
		errSeen, errThenMore, multiLocked := false, false, false
		for i, c := range cmds {
			if errSeen {
				errThenMore = true
			}
			if c.Kind == wire.RawBytes {
				exps[i] = refmodel.Expect{Class: refmodel.Error}
				errSeen = true
			} else {
				exps[i] = model.Apply(c, now)
				if exps[i].Class == refmodel.Fail {
					errSeen = true
				}
			}
			if c.Kind == wire.Get && len(c.Keys) > 1 && sc.Cfg.Lock != "nolock" {
				multiLocked = true
			}
			burst = append(burst, cl.Encode(c)...)
		}
		const sentOpq = 0x7ffffff0
		if sc.Binary {
			burst = append(burst, wire.EncodeBinary(wire.Cmd{Kind: wire.Noop, Opaque: sentOpq})...)
		} else {
			burst = append(burst, "version\r\n"...)
		}
		fail := func(format string, args ...interface{}) {
			t.Fatalf("C08 %s: %s\nstate before: %v\npipeline: %s", sc, fmt.Sprintf(format, args...), pre, strings.Join(cmdsString(cmds), " | "))
		}
		werr := make(chan error, 1)
		go func() { _, err := cl.C.Write(burst); werr <- err }()
		if sc.Binary {
			frames, closed, problem, err := cl.RecvBinUntil(sentOpq)
			if err != nil {
				undecidedOrHang(t, rec, st, cl, err, fmt.Sprintf("C08 %s: %v (pipeline: %s)", sc, err, strings.Join(cmdsString(cmds), " | ")))
			}
			if problem != "" {
				fail("malformed reply frame: %s (after %d frames)", problem, len(frames))
			}
			if closed {
				fail("connection closed before the sentinel was answered; frames so far: %v", frames)
			}
			last := frames[len(frames)-1]
			if last.Opcode != 0x0a || last.Status != 0 {
				fail("sentinel answered with %s", last)
			}
			frames = frames[:len(frames)-1]
			// attribute frames to requests by opaque; the request index must not decrease
			per := make([][]wire.BinReply, len(cmds))
			prev := 0
			for _, f := range frames {
				idx := -1
				for i, c := range cmds {
					span := uint32(1)
					if c.Kind == wire.Get || c.Kind == wire.GetE {
						span = uint32(len(c.Keys)) + 1
					}
					if f.Opaque >= c.Opaque && f.Opaque < c.Opaque+span {
						idx = i
					}
				}
				if idx < 0 {
					fail("reply frame %s carries an opaque of no request", f)
				}
				if idx < prev {
					fail("reply frame %s for request %d arrives after a reply to request %d", f, idx, prev)
				}
				prev = idx
				per[idx] = append(per[idx], f)
			}
			for i, c := range cmds {
				if msg := checkBinFrames(c, exps[i], per[i]); msg != "" {
					fail("request %d (%s): %s", i, c, msg)
				}
			}
		} else {
			for i, c := range cmds {
				kind := c
				if c.Kind == wire.RawBytes {
					kind = wire.Cmd{Kind: wire.UnknownCmd}
				}
				got, err := cl.RecvText(kind)
				if err != nil {
					undecidedOrHang(t, rec, st, cl, err, fmt.Sprintf("C08 %s: %v (pipeline: %s)", sc, err, strings.Join(cmdsString(cmds), " | ")))
				}
				if c.Kind == wire.RawBytes {
					if got.Class != wire.Error || len(got.Problems) > 0 {
						fail("request %d (%q): expected one error line, got %s", i, c.Raw, got)
					}
					continue
				}
				if msg := compare(c, false, exps[i], got); msg != "" {
					fail("request %d (%s): %s", i, c, msg)
				}
			}
			got, err := cl.RecvText(wire.Cmd{Kind: wire.Version})
			if err != nil || got.Class != wire.OK || !strings.HasPrefix(got.Line, "VERSION ") {
				fail("sentinel: %v %s", err, got)
			}
		}
		if err := <-werr; err != nil {
			fail("write: %v", err)
		}
		// nothing may follow the sentinel's reply: a fresh sentinel is answered at once
		got, err := cl.Do(wire.Cmd{Kind: wire.Version})
		if err != nil || got.Class != wire.OK || len(got.Problems) > 0 {
			fail("second sentinel: %v %s", err, got)
		}
		if port == 1 {
			sc.Cfg.Shape = "l1l2+batch@batch" // label only
		}
		nt := errThenMore || multiLocked
		var fp strings.Builder
		fp.WriteString(sc.String())
		for _, c := range cmds {
			fmt.Fprintf(&fp, "|%d%s%s:%d%v", c.Kind, c.Key+strings.Join(c.Keys, ","), c.Raw, len(c.Value), c.Quiet)
		}
		classes := []string{"cfg:" + sc.String()}
		if errThenMore {
			classes = append(classes, "error-then-more-requests")
		}
		if multiLocked {
			classes = append(classes, "multikey-get-under-lock")
		}
		rec.Case(nt, fp.String(), classes...)
		if rec.WantSample(nt) {
			rec.Sample(nt, map[string]interface{}{"config": sc.String(), "pipeline": cmdsString(cmds)})
		}
	})
}
