package props

import (
	"fmt"
	"strconv"
	"strings"
	"testing"
	"time"

	"pgregory.net/rapid"

	"verifharness/evid"
	"verifharness/fakemc"
	"verifharness/refmodel"
	"verifharness/wire"
)

// c04Alphabets: keys built to provoke suffix confusion, plus long keys.
func c04Alphabet(t *rapid.T) []string {
	base := []string{"a", "a-0", "a-meta", "a-1", "b"}
	long := rapid.SampledFrom([]int{0, 40, 249, 250}).Draw(t, "longKeyLen")
	if long > 0 {
		base = append(base, strings.Repeat("L", long-2)+"-0")
		base = append(base, strings.Repeat("L", long-2)+"-1")
	}
	return base
}

func genChunkedValue(t *rapid.T, keyLen int) []byte {
	p := chunkPayload(keyLen)
	var n int
	switch rapid.IntRange(0, 9).Draw(t, "sizeClass") {
	case 0:
		n = 0
	case 1:
		n = rapid.IntRange(1, 30).Draw(t, "small")
	case 9:
		n = rapid.IntRange(5, 20).Draw(t, "manyChunks")*p + rapid.IntRange(-1, 1).Draw(t, "off")
		if rapid.IntRange(0, 3).Draw(t, "hundreds") == 0 {
			// chunk numbers of three digits, beyond 255
			n = rapid.SampledFrom([]int{100, 255, 256, 257, 300}).Draw(t, "chunks")*p + rapid.IntRange(-1, 1).Draw(t, "off")
		}
	default:
		n = rapid.IntRange(0, 4).Draw(t, "k")*p + rapid.IntRange(-1, 1).Draw(t, "off")
	}
	if n < 0 {
		n = 0
	}
	return shapeValue(mkValue(rapid.Uint32Range(0, 999).Draw(t, "valSeed"), n), genShape(t, "val"))
}

func TestC04(t *testing.T) {
	rec := evid.For("C04")
	maxSteps := 30
	if thorough() {
		maxSteps = 60
	}
	rapid.Check(t, func(t *rapid.T) {
		keys := c04Alphabet(t)
		h, f := newChunked()
		defer h.Close()
		model := refmodel.New()
		n := rapid.IntRange(1, maxSteps).Draw(t, "steps")
		var cmds []wire.Cmd
		var fp strings.Builder
		bigReadBack, suffixPair := false, false
		multiChunkWritten := map[string]bool{}
		// Keys whose backend entries were partly removed by a generated "damage"
		// step (backend eviction).  What a damaged key itself returns is C05's
		// business; here it only must not disturb anything else, and a
		// successful set repairs it.
		damaged := map[string]bool{}
		damagedEver := false
		fail := func(i int, c wire.Cmd, msg string) {
			t.Fatalf("C04 step %d %s: %s\nsequence: %s", i, c, msg, strings.Join(cmdsString(cmds), " | "))
		}
		for i := 0; i < n; i++ {
			now := nowUnix()
			if rapid.IntRange(0, 9).Draw(t, "damage") == 0 {
				k := rapid.SampledFrom(keys).Draw(t, "damageKey")
				if it := model.Live(k, now); it != nil {
					nchunks := (len(it.Value) + chunkPayload(len(k)) - 1) / chunkPayload(len(k))
					nb := nchunks + 1
					if nb > 20 {
						nb = 20 // the loop below looks at metadata and the first 19 chunks only
					}
					mask := rapid.IntRange(1, 1<<uint(nb)-1).Draw(t, "damageMask")
					var names []string
					for b := 0; b <= nchunks && b < 20; b++ {
						if mask&(1<<uint(b)) != 0 {
							if b == 0 {
								names = append(names, k+"-meta")
							} else {
								names = append(names, k+"-"+strconv.Itoa(b-1))
							}
						}
					}
					if f.Evict(names...) > 0 {
						damaged[k] = true
						damagedEver = true
						cmds = append(cmds, wire.Cmd{Kind: wire.RawBytes, Raw: []byte(fmt.Sprintf("[backend loses %v]", names))})
					}
				}
			}
			kind := rapid.SampledFrom([]wire.Kind{wire.Set, wire.Set, wire.Add, wire.Replace, wire.Append, wire.Prepend, wire.Delete, wire.Touch, wire.Get, wire.Get, wire.Gat}).Draw(t, "kind")
			c := wire.Cmd{Kind: kind}
			spare := rapid.SampledFrom([]int{0, 0, 1, 4, 5, 6, 8, 16}).Draw(t, "spareCap")
			switch kind {
			case wire.Get:
				for j := rapid.IntRange(1, 4).Draw(t, "nkeys"); j > 0; j-- {
					c.Keys = append(c.Keys, rapid.SampledFrom(keys).Draw(t, "gkey"))
				}
			default:
				c.Key = rapid.SampledFrom(keys).Draw(t, "key")
			}
			switch kind {
			case wire.Set, wire.Add, wire.Replace:
				c.Value = genChunkedValue(t, len(c.Key))
				c.Flags = genFlags(t, "flags")
				c.Exptime = genTTL(t, "ttl", now)
			case wire.Append, wire.Prepend:
				c.Value = genChunkedValue(t, len(c.Key))
			case wire.Touch, wire.Gat:
				c.Exptime = genTTL(t, "ttl", now)
			}
			cmds = append(cmds, c)
			fmt.Fprintf(&fp, "|%d%s:%d:%d", c.Kind, c.Key+strings.Join(c.Keys, ","), len(c.Value), spare)
			var before *refmodel.Item
			if c.Kind == wire.Delete {
				before = model.Live(c.Key, now)
			}
			// now and then the backend loses entries of the command's key while the
			// command is running (eviction, or another writer without the lock): at the
			// arrival of the command's 2nd..4th backend request.  As with damage between
			// commands, what this command and later ones on the key answer is not judged;
			// everything else must go on as if nothing had happened -- in particular the
			// handler's connection must still be in step.
			midLoss := false
			if c.Key != "" && !damaged[c.Key] && rapid.IntRange(0, 11).Draw(t, "midLoss") == 0 {
				if it := model.Live(c.Key, now); it != nil {
					nchunks := (len(it.Value) + chunkPayload(len(c.Key)) - 1) / chunkPayload(len(c.Key))
					nb := nchunks + 1
					if nb > 6 {
						nb = 6
					}
					mask := rapid.IntRange(1, 1<<uint(nb)-1).Draw(t, "midLossMask")
					at := rapid.IntRange(1, 3).Draw(t, "midLossAt")
					var names []string
					for b := 0; b < nb; b++ {
						if mask&(1<<uint(b)) != 0 {
							if b == 0 {
								names = append(names, c.Key+"-meta")
							} else {
								names = append(names, c.Key+"-"+strconv.Itoa(b-1))
							}
						}
					}
					seen := 0
					f.Before = func(r *fakemc.Req) {
						if seen++; seen == at+1 {
							f.Evict(names...)
						}
					}
					midLoss = true
					damaged[c.Key] = true
					damagedEver = true
					cmds[len(cmds)-1] = wire.Cmd{Kind: wire.RawBytes, Raw: []byte(fmt.Sprintf("[during the next command, at its backend request #%d, the backend loses %v]", at+1, names))}
					cmds = append(cmds, c)
				}
			}
			onDamaged := damaged[c.Key]
			logFrom := f.LogLen()
			var exp refmodel.Expect
			if onDamaged {
				// result of a command on a damaged key is not judged (it must return, though);
				// a successful set writes the key afresh
				done := make(chan hres, 1)
				go func() { r, _ := execHandler(h, c, spare); done <- r }()
				var got hres
				select {
				case got = <-done:
				case <-time.After(hangBound()):
					noteHang()
					fail(i, c, "command on a key with lost backend entries did not return within the bound")
				}
				if midLoss {
					f.Before = nil
					delete(model.M, c.Key) // even a set that reports success may have lost part of what it wrote
				} else if c.Kind == wire.Set && got.Class == refmodel.OK {
					model.Apply(c, now)
					delete(damaged, c.Key)
				} else if c.Kind != wire.Get && c.Kind != wire.Gat && c.Kind != wire.Touch {
					// any other write may or may not have taken effect: forget the key until the next set
					delete(model.M, c.Key)
					damaged[c.Key] = true
				}
				exp = refmodel.Expect{}
			} else {
				exp = model.Apply(c, now)
				done := make(chan hres, 1)
				go func() { r, _ := execHandler(h, c, spare); done <- r }()
				var got hres
				select {
				case got = <-done:
				case <-time.After(hangBound()):
					noteHang()
					fail(i, c, "command did not return within the bound")
				}
				if got.EchoBad != "" {
					// holds for intact, absent and damaged keys alike: the responder decides from
					// this flag whether a miss is put on the wire
					fail(i, c, got.EchoBad)
				}
				if c.Kind == wire.Get {
					// positions of damaged keys are not judged
					for j, k := range c.Keys {
						if damaged[k] {
							exp.Hits[j], got.Hits[j] = nil, nil
						}
					}
				}
				if msg := compareH(c, exp, got); msg != "" {
					fail(i, c, msg)
				}
			}
			// requests issued during the command name only entries derived from its key(s)
			for _, r := range f.Log()[logFrom:] {
				if r.Opcode == fakemc.OpNoop {
					continue
				}
				ok := false
				for _, k := range append([]string{c.Key}, c.Keys...) {
					if k != "" && derivedFrom(r.Key, k) {
						ok = true
					}
				}
				if !ok {
					fail(i, c, fmt.Sprintf("backend request opcode %#x names entry %q, which is not derived from the command's key (spare capacity %d)", r.Opcode, r.Key, spare))
				}
			}
			if bad := f.Bad(); len(bad) > 0 {
				fail(i, c, "malformed backend request: "+bad[0])
			}
			live := f.Live()
			if len(damaged) == 0 && !damagedEver {
				if msg := chunkedBackendCheck(live, model, keys, nowUnix()); msg != "" {
					fail(i, c, "backend image: "+msg)
				}
			} else {
				// with damage in play only the healthy keys' images are judged
				var healthy []string
				for _, k := range keys {
					if !damaged[k] {
						healthy = append(healthy, k)
					}
				}
				if msg := chunkedBackendCheckKeys(live, model, healthy, keys, nowUnix()); msg != "" {
					fail(i, c, "backend image (healthy keys): "+msg)
				}
			}
			if c.Kind == wire.Delete && before != nil && !onDamaged {
				p := chunkPayload(len(c.Key))
				for j := 0; j < (len(before.Value)+p-1)/p; j++ {
					if _, ok := live[c.Key+"-"+strconv.Itoa(j)]; ok {
						fail(i, c, fmt.Sprintf("after delete, chunk %d of the deleted value is still in the backend", j))
					}
				}
			}
			// classification
			for _, k := range append([]string{c.Key}, c.Keys...) {
				if k == "" {
					continue
				}
				it := model.Live(k, now)
				if it != nil && len(it.Value) > chunkPayload(len(k)) {
					if c.Kind == wire.Get || c.Kind == wire.Gat {
						if multiChunkWritten[k] {
							bigReadBack = true
						}
					} else if exp.Class == refmodel.OK {
						multiChunkWritten[k] = true
					}
				}
			}
			if model.Live("a", now) != nil && (model.Live("a-0", now) != nil || model.Live("a-meta", now) != nil || model.Live("a-1", now) != nil) {
				suffixPair = true
			}
		}
		// final read of every key
		now := nowUnix()
		for _, k := range keys {
			if damaged[k] {
				continue
			}
			c := wire.Cmd{Kind: wire.Get, Keys: []string{k}}
			exp := model.Apply(c, now)
			got, _ := execHandler(h, c, 0)
			if msg := compareH(c, exp, got); msg != "" {
				fail(n, c, "final scan: "+msg)
			}
		}
		nt := bigReadBack || suffixPair
		var cl []string
		if bigReadBack {
			cl = append(cl, "multi-chunk-value-read-back")
		}
		if suffixPair {
			cl = append(cl, "suffix-confusable-keys-both-live")
		}
		if damagedEver {
			cl = append(cl, "backend-entry-loss-during-sequence")
		}
		rec.Case(nt, fp.String(), cl...)
		if rec.WantSample(nt) {
			rec.Sample(nt, map[string]interface{}{"alphabet": keys, "commands": cmdsString(cmds)})
		}
	})
}
