package props

import (
	"bytes"
	"encoding/binary"
	"fmt"
	"strconv"
	"strings"

	"github.com/netflix/rend/common"
	"github.com/netflix/rend/handlers"
	"github.com/netflix/rend/handlers/memcached/chunked"

	"verifharness/bufpipe"
	"verifharness/fakemc"
	"verifharness/refmodel"
	"verifharness/wire"
)

const (
	slabBudget   = 1184
	itemOverhead = 67
	tokenLen     = 16
	metaLen      = 40
)

// chunkPayload is the number of value bytes per chunk for a key length, as
// the property states it: 1184 - 67 - 4 (suffix) - keylen - 16 (token).
func chunkPayload(keyLen int) int { return slabBudget - itemOverhead - 4 - keyLen - tokenLen }

// newChunked returns a chunked handler talking to a fresh fake over an
// in-memory pipe.
func newChunked() (handlers.Handler, *fakemc.Server) {
	f := fakemc.New()
	return chunkedOn(f), f
}

func chunkedOn(f *fakemc.Server) handlers.Handler {
	h, _ := chunkedOnID(f)
	return h
}

// chunkedOnID also returns the fake's connection id.
func chunkedOnID(f *fakemc.Server) (handlers.Handler, int) {
	a, b := bufpipe.Pair()
	id := f.ServeConn(b)
	return chunked.NewHandler(a), id
}

// keySlice returns key as a slice with the given spare capacity, plus a copy
// of the whole backing array for the aliasing check.
func keySlice(key string, spare int) []byte {
	b := make([]byte, len(key), len(key)+spare)
	copy(b, key)
	for i := len(key); i < cap(b); i++ {
		b[:cap(b)][i] = '#'
	}
	return b
}

func spareIntact(k []byte, key string) bool {
	full := k[:cap(k)]
	if string(full[:len(key)]) != key {
		return false
	}
	for _, c := range full[len(key):] {
		if c != '#' {
			return false
		}
	}
	return true
}

// hres is the outcome of one handler-level command.
type hres struct {
	EchoBad string // a get response that does not echo its request's quiet flag (judged by C04 only)
	Class   refmodel.Class
	Hits    []*refmodel.Hit // per requested key for reads, nil = miss
	Exps    []uint32        // GetE: remaining TTL per requested key
	Err     error
}

func errClass(err error) refmodel.Class {
	switch err {
	case nil:
		return refmodel.OK
	case common.ErrKeyNotFound, common.ErrKeyExists, common.ErrItemNotStored:
		return refmodel.Fail
	}
	return refmodel.Error
}

// execHandler runs c directly on a handlers.Handler.  spare is the spare
// capacity given to every key slice handed to the handler; the returned bool
// is false if the handler modified the caller's key bytes.
func execHandler(h handlers.Handler, c wire.Cmd, spare int) (res hres, keysIntact bool) {
	keysIntact = true
	switch c.Kind {
	case wire.Set, wire.Add, wire.Replace, wire.Append, wire.Prepend:
		k := keySlice(c.Key, spare)
		req := common.SetRequest{Key: k, Data: append([]byte(nil), c.Value...), Flags: c.Flags, Exptime: c.Exptime, Quiet: c.Quiet, Opaque: c.Opaque}
		var err error
		switch c.Kind {
		case wire.Set:
			err = h.Set(req)
		case wire.Add:
			err = h.Add(req)
		case wire.Replace:
			err = h.Replace(req)
		case wire.Append:
			err = h.Append(req)
		case wire.Prepend:
			err = h.Prepend(req)
		}
		keysIntact = spareIntact(k, c.Key)
		return hres{Class: errClass(err), Err: err}, keysIntact
	case wire.Delete:
		k := keySlice(c.Key, spare)
		err := h.Delete(common.DeleteRequest{Key: k, Quiet: c.Quiet, Opaque: c.Opaque})
		return hres{Class: errClass(err), Err: err}, spareIntact(k, c.Key)
	case wire.Touch:
		k := keySlice(c.Key, spare)
		err := h.Touch(common.TouchRequest{Key: k, Exptime: c.Exptime, Quiet: c.Quiet, Opaque: c.Opaque})
		return hres{Class: errClass(err), Err: err}, spareIntact(k, c.Key)
	case wire.Gat:
		k := keySlice(c.Key, spare)
		r, err := h.GAT(common.GATRequest{Key: k, Exptime: c.Exptime, Quiet: c.Quiet, Opaque: c.Opaque})
		res = hres{Class: errClass(err), Err: err}
		if err == nil {
			if r.Miss {
				res.Hits = []*refmodel.Hit{nil}
			} else {
				res.Hits = []*refmodel.Hit{{Key: string(r.Key), Value: r.Data, Flags: r.Flags}}
			}
		}
		return res, spareIntact(k, c.Key)
	case wire.Get, wire.GetE:
		req := common.GetRequest{}
		var ks [][]byte
		for i, key := range c.Keys {
			k := keySlice(key, spare)
			ks = append(ks, k)
			req.Keys = append(req.Keys, k)
			req.Opaques = append(req.Opaques, uint32(i))
			req.Quiet = append(req.Quiet, i%2 == 1) // every response must echo its request's quiet flag (the responder decides on it whether a miss is answered)
		}
		res.Hits = make([]*refmodel.Hit, len(c.Keys))
		got := 0
		if c.Kind == wire.GetE {
			res.Exps = make([]uint32, len(c.Keys))
			rc, ec := h.GetE(req)
			for rc != nil || ec != nil {
				select {
				case r, ok := <-rc:
					if !ok {
						rc = nil
						continue
					}
					got++
					if int(r.Opaque) < len(res.Hits) && !r.Miss {
						res.Hits[r.Opaque] = &refmodel.Hit{Key: string(r.Key), Value: r.Data, Flags: r.Flags}
						res.Exps[r.Opaque] = r.Exptime
					}
				case e, ok := <-ec:
					if !ok {
						ec = nil
						continue
					}
					res.Err = e
				}
			}
		}
		rc, ec := (<-chan common.GetResponse)(nil), (<-chan error)(nil)
		if c.Kind == wire.Get {
			rc, ec = h.Get(req)
		}
		for rc != nil || ec != nil {
			select {
			case r, ok := <-rc:
				if !ok {
					rc = nil
					continue
				}
				got++
				if int(r.Opaque) < len(res.Hits) && r.Quiet != req.Quiet[r.Opaque] && res.EchoBad == "" {
					res.EchoBad = fmt.Sprintf("the response for key #%d (%q, miss=%v) carries quiet=%v, the request said %v", r.Opaque, c.Keys[r.Opaque], r.Miss, r.Quiet, req.Quiet[r.Opaque])
				}
				if int(r.Opaque) < len(res.Hits) && !r.Miss {
					res.Hits[r.Opaque] = &refmodel.Hit{Key: string(r.Key), Value: r.Data, Flags: r.Flags}
				}
			case e, ok := <-ec:
				if !ok {
					ec = nil
					continue
				}
				res.Err = e
			}
		}
		res.Class = errClass(res.Err)
		if res.Err == nil && got != len(c.Keys) {
			res.Class = refmodel.Error
			res.Err = fmt.Errorf("handler returned %d responses for %d keys", got, len(c.Keys))
		}
		for i, k := range ks {
			if !spareIntact(k, c.Keys[i]) {
				keysIntact = false
			}
		}
		return res, keysIntact
	}
	panic("execHandler: unsupported kind " + c.Kind.String())
}

// compareH compares a handler-level result with the model's expectation.
func compareH(c wire.Cmd, exp refmodel.Expect, got hres) string {
	if got.Class != exp.Class {
		return fmt.Sprintf("result class %s (err %v), model says %s", got.Class, got.Err, exp.Class)
	}
	if len(exp.Hits) > 0 {
		for i, w := range exp.Hits {
			g := got.Hits[i]
			switch {
			case w == nil && g != nil:
				return fmt.Sprintf("key %d: hit (%s, flags %d), model says miss", i, short(g.Value), g.Flags)
			case w != nil && g == nil:
				return fmt.Sprintf("key %d: miss, model says hit (%s, flags %d)", i, short(w.Value), w.Flags)
			case w != nil && (!bytes.Equal(w.Value, g.Value) || w.Flags != g.Flags):
				return fmt.Sprintf("key %d: got (%s, flags %d), model says (%s, flags %d); first difference at byte %d", i, short(g.Value), g.Flags, short(w.Value), w.Flags, firstDiff(w.Value, g.Value))
			}
		}
	}
	return ""
}

func firstDiff(a, b []byte) int {
	for i := 0; i < len(a) && i < len(b); i++ {
		if a[i] != b[i] {
			return i
		}
	}
	if len(a) != len(b) {
		return min(len(a), len(b))
	}
	return -1
}

type chunkMeta struct {
	Length, Flags, NumChunks, ChunkSize, Instime, Exptime uint32
	Token                                                 []byte
}

func parseMeta(v []byte) (chunkMeta, bool) {
	if len(v) != metaLen {
		return chunkMeta{}, false
	}
	return chunkMeta{
		Length: binary.BigEndian.Uint32(v[0:4]), Flags: binary.BigEndian.Uint32(v[4:8]),
		NumChunks: binary.BigEndian.Uint32(v[8:12]), ChunkSize: binary.BigEndian.Uint32(v[12:16]),
		Instime: binary.BigEndian.Uint32(v[16:20]), Exptime: binary.BigEndian.Uint32(v[20:24]), Token: v[24:40],
	}, true
}

// derivedFrom reports whether a backend key name is derived from client key k.
func derivedFrom(backendKey, k string) bool {
	if !strings.HasPrefix(backendKey, k+"-") {
		return false
	}
	suf := backendKey[len(k)+1:]
	if suf == "meta" {
		return true
	}
	n, err := strconv.Atoi(suf)
	return err == nil && n >= 0 && strconv.Itoa(n) == suf
}

// chunkedBackendCheck verifies that the fake's live entries are exactly a
// faithful chunked image of the model's live keys.
func chunkedBackendCheck(live map[string]fakemc.Entry, m *refmodel.Model, alphabet []string, now int64) string {
	return chunkedBackendCheckKeys(live, m, alphabet, alphabet, now)
}

// chunkedBackendCheckKeys judges the images of judged keys only; entries may
// be derived from any key of the alphabet.
func chunkedBackendCheckKeys(live map[string]fakemc.Entry, m *refmodel.Model, judged, alphabet []string, now int64) string {
	for _, k := range judged {
		it := m.Live(k, now)
		me, hasMeta := live[k+"-meta"]
		if it == nil {
			if hasMeta {
				return fmt.Sprintf("key %q is gone in the model but its metadata entry is still readable", k)
			}
			continue
		}
		if !hasMeta {
			return fmt.Sprintf("live key %q has no metadata entry", k)
		}
		md, ok := parseMeta(me.Value)
		if !ok {
			return fmt.Sprintf("metadata entry of %q has %d bytes, want %d", k, len(me.Value), metaLen)
		}
		p := chunkPayload(len(k))
		wantN := (len(it.Value) + p - 1) / p
		if int(md.Length) != len(it.Value) || int(md.NumChunks) != wantN || int(md.ChunkSize) != p || md.Flags != it.Flags {
			return fmt.Sprintf("metadata of %q = {len %d flags %d chunks %d chunksize %d}, want {len %d flags %d chunks %d chunksize %d}", k, md.Length, md.Flags, md.NumChunks, md.ChunkSize, len(it.Value), it.Flags, wantN, p)
		}
		var val []byte
		for i := 0; i < wantN; i++ {
			ce, ok := live[k+"-"+strconv.Itoa(i)]
			if !ok {
				return fmt.Sprintf("chunk %d of live key %q is missing", i, k)
			}
			if len(ce.Value) != tokenLen+p {
				return fmt.Sprintf("chunk %d of %q has %d bytes, want %d", i, k, len(ce.Value), tokenLen+p)
			}
			if !bytes.Equal(ce.Value[:tokenLen], md.Token) {
				return fmt.Sprintf("chunk %d of %q carries a token different from its metadata's", i, k)
			}
			val = append(val, ce.Value[tokenLen:]...)
		}
		if len(val) < len(it.Value) || !bytes.Equal(val[:len(it.Value)], it.Value) {
			return fmt.Sprintf("reassembled chunks of %q differ from the model value at byte %d", k, firstDiff(it.Value, val))
		}
		for _, c := range val[len(it.Value):] {
			if c != 0 {
				return fmt.Sprintf("last chunk of %q is not zero-padded", k)
			}
		}
	}
	for bk := range live {
		ok := false
		for _, k := range alphabet {
			if derivedFrom(bk, k) {
				ok = true
				break
			}
		}
		if !ok {
			return fmt.Sprintf("backend entry %q is derived from no client key", bk)
		}
	}
	return ""
}
