package props

import (
	"fmt"
	"strconv"
	"strings"
	"testing"
	"time"

	"pgregory.net/rapid"

	"verifharness/evid"
	"verifharness/fakemc"
	"verifharness/refmodel"
	"verifharness/stack"
	"verifharness/wire"
)

const ttlTolerance = 3

func deadlineClose(a, b int64) bool {
	if a == 0 || b == 0 {
		return a == b
	}
	d := a - b
	return d >= -ttlTolerance && d <= ttlTolerance
}

// storeExpiries: every request of a step that fixes an expiry on a tier (store,
// touch, get-and-touch) and is accepted must ask for the expiry the client last
// asked for -- also when the entry it writes is dead on arrival and therefore
// invisible to tierDeadlines (a never-expiring item re-populated with "now").
func storeExpiries(name string, reqs []fakemc.Req, chunkedTier bool, m *refmodel.Model, keys []string, now int64) string {
	for _, r := range reqs {
		switch r.Opcode {
		case fakemc.OpSet, fakemc.OpAdd, fakemc.OpReplace, fakemc.OpSetQ, fakemc.OpAddQ, fakemc.OpReplaceQ, fakemc.OpTouch, fakemc.OpGat, fakemc.OpGatQ:
		default:
			continue
		}
		if r.Status != 0 && r.Status != 0xffff {
			continue // refused by the tier: no effect
		}
		k := r.Key
		if chunkedTier {
			k = ""
			for _, ck := range keys {
				if derivedFrom(r.Key, ck) {
					k = ck
				}
			}
		}
		it := m.Live(k, now)
		if k == "" || it == nil {
			continue
		}
		if d := fakemc.Deadline(r.Exptime, now); !deadlineClose(d, it.Deadline) {
			return fmt.Sprintf("%s: request opcode %#x for entry %q carries exptime %d, i.e. expiry %d; the client last asked for %d (now %d)", name, r.Opcode, r.Key, r.Exptime, d, it.Deadline, now)
		}
	}
	return ""
}

// tierDeadlines checks one tier's fake against the model.  authoritative: every
// live model key must be present; otherwise only live entries are compared.
func tierDeadlines(name string, f *fakemc.Server, chunkedTier bool, m *refmodel.Model, keys []string, now int64, authoritative bool) string {
	live := f.Live()
	for _, k := range keys {
		it := m.Live(k, now)
		var entries map[string]fakemc.Entry
		if chunkedTier {
			entries = map[string]fakemc.Entry{}
			me, ok := live[k+"-meta"]
			if ok {
				entries[k+"-meta"] = me
				md, okm := parseMeta(me.Value)
				if !okm {
					return fmt.Sprintf("%s: metadata of %q is malformed", name, k)
				}
				complete := true
				for i := 0; i < int(md.NumChunks); i++ {
					ce, okc := live[k+"-"+strconv.Itoa(i)]
					if !okc {
						complete = false // unreadable: acts as a miss
						continue
					}
					entries[k+"-"+strconv.Itoa(i)] = ce
				}
				if it != nil && complete {
					want := it.Deadline
					if !deadlineClose(int64(md.Exptime), want) {
						// internal copy, only observable through a later append/prepend
						// (which the generator produces): counted, not a violation by itself
						evid.For("C09").Class("chunk-metadata-expiry-copy-stale")
					}
				}
				if !complete {
					entries = map[string]fakemc.Entry{} // not servable, nothing to compare
				}
			}
		} else if e, ok := live[k]; ok {
			entries = map[string]fakemc.Entry{k: e}
		}
		if it == nil {
			// the key is gone for the client: no tier may still be able to serve it
			if chunkedTier {
				if len(entries) > 0 {
					return fmt.Sprintf("%s: key %q is expired/deleted for the client but the tier can still serve it (metadata and all chunks live)", name, k)
				}
			} else if len(entries) > 0 {
				return fmt.Sprintf("%s: key %q is expired/deleted for the client but entry is live until %d (now %d)", name, k, entries[k].Deadline, now)
			}
			continue
		}
		if len(entries) == 0 {
			if authoritative {
				return fmt.Sprintf("%s: key %q should be live until %d but the tier cannot serve it (lost before its expiry)", name, k, it.Deadline)
			}
			continue
		}
		for bk, e := range entries {
			if !deadlineClose(e.Deadline, it.Deadline) {
				return fmt.Sprintf("%s: entry %q expires at %d (raw exptime %d received at %d), the client last asked for %d (now %d)", name, bk, e.Deadline, e.RawExp, e.SetAt, it.Deadline, now)
			}
		}
	}
	return ""
}

func TestC09(t *testing.T) {
	rec := evid.For("C09")
	maxSteps := 25
	if thorough() {
		maxSteps = 60
	}
	rapid.Check(t, func(t *rapid.T) {
		// short keys, or keys beyond any small scratch buffer a request writer may use
		keys := []string{"a", "b", "c"}
		if rapid.IntRange(0, 3).Draw(t, "longKeys") == 0 {
			keys = []string{"a", strings.Repeat("m", 124) + "1", strings.Repeat("n", 125) + "2", strings.Repeat("L", 249) + "3"}
		}
		shape := rapid.SampledFrom([]string{"l1only", "l1l2+batch", "l1l2+batch"}).Draw(t, "shape")
		cfg := stack.Config{Shape: shape, Lock: rapid.SampledFrom([]string{"nolock", "lock1r"}).Draw(t, "lock"),
			L1: rapid.SampledFrom([]string{"std", "chunked", "batched"}).Draw(t, "l1"), L2: "-"}
		if shape != "l1only" {
			cfg.L2 = rapid.SampledFrom([]string{"std", "batched"}).Draw(t, "l2")
		}
		st := stack.Get(cfg)
		ses := newSession(st, true)
		defer ses.close()
		model := refmodel.New()
		n := rapid.IntRange(2, maxSteps).Draw(t, "steps")
		var descr []string
		lastClass := map[string]int{}
		nt := false
		fail := func(i int, msg string) {
			t.Fatalf("C09 %s step %d: %s\nsequence: %s", cfg, i, msg, strings.Join(descr, " | "))
		}
		check := func(i int) {
			now := nowUnix()
			if cfg.Shape == "l1only" {
				if msg := tierDeadlines("L1", st.L1, cfg.L1 == "chunked", model, keys, now, true); msg != "" {
					fail(i, msg)
				}
				return
			}
			if msg := tierDeadlines("L2", st.L2, false, model, keys, now, true); msg != "" {
				fail(i, msg)
			}
			if msg := tierDeadlines("L1", st.L1, cfg.L1 == "chunked", model, keys, now, false); msg != "" {
				fail(i, msg)
			}
		}
		for i := 0; i < n; i++ {
			now := nowUnix()
			if cfg.Shape != "l1only" && rapid.IntRange(0, 4).Draw(t, "evict") == 0 {
				k := rapid.SampledFrom(keys).Draw(t, "evictKey")
				what := rapid.SampledFrom([]string{"all", "meta", "chunk0"}).Draw(t, "evictWhat")
				var names []string
				if cfg.L1 == "chunked" {
					switch what {
					case "all":
						names = []string{k + "-meta", k + "-0", k + "-1", k + "-2", k + "-3", k + "-4"}
					case "meta":
						names = []string{k + "-meta"}
					default:
						names = []string{k + "-0"}
					}
				} else {
					names = []string{k}
				}
				if st.L1.Evict(names...) > 0 {
					if it := model.Live(k, now); it != nil && it.Deadline != 0 {
						lastClass["evicted:"+k] = 1
					}
				}
				descr = append(descr, fmt.Sprintf("[evict L1 %v]", names))
			}
			kind := rapid.SampledFrom([]wire.Kind{wire.Set, wire.Set, wire.Add, wire.Replace, wire.Touch, wire.Touch, wire.Gat, wire.Gat, wire.Append, wire.Prepend, wire.Get, wire.Get, wire.Delete}).Draw(t, "kind")
			// L2 loses a key (eviction, restart) while L1 may still hold it with its
			// old expiry; the authoritative tier no longer has it, so the model drops
			// it too.  Until both tiers agree again replies depend on which tier a
			// command consults first, so the very next command is a main-port add or
			// set of that key: whatever it is acknowledged with is what every tier
			// may keep afterwards (seed C09o: the L1 left-over survives the add).
			lostL2 := ""
			if cfg.Shape != "l1only" && rapid.IntRange(0, 5).Draw(t, "loseL2") == 0 {
				lostL2 = rapid.SampledFrom(keys).Draw(t, "loseL2Key")
				hadL1 := model.Live(lostL2, now) != nil
				st.L2.Evict(lostL2)
				model.Apply(wire.Cmd{Kind: wire.Delete, Key: lostL2}, now)
				kind = rapid.SampledFrom([]wire.Kind{wire.Add, wire.Add, wire.Set}).Draw(t, "loseL2Kind")
				descr = append(descr, fmt.Sprintf("[lose L2 %q]", lostL2))
				if hadL1 {
					nt = true // L2 lost a key the model held live: an add/set must leave no tier with the old expiry
				}
			}
			c := wire.Cmd{Kind: kind}
			if cfg.Shape == "l1l2+batch" && lostL2 == "" {
				c.Port = rapid.IntRange(0, 1).Draw(t, "port")
			}
			if kind == wire.Get {
				for j := rapid.IntRange(1, 3).Draw(t, "nkeys"); j > 0; j-- {
					c.Keys = append(c.Keys, rapid.SampledFrom(keys).Draw(t, "gkey"))
				}
			} else {
				c.Key = rapid.SampledFrom(keys).Draw(t, "key")
				if lostL2 != "" {
					c.Key = lostL2
				}
			}
			class := -1
			switch kind {
			case wire.Set, wire.Add, wire.Replace:
				class = rapid.IntRange(0, len(ttlClassNames)-1).Draw(t, "ttl")
				c.Exptime = ttlOf(class, now)
				c.Value = mkValue(rapid.Uint32Range(0, 99).Draw(t, "valSeed"), rapid.SampledFrom([]int{0, 5, 1500, 3000}).Draw(t, "valLen"))
				c.Flags = genFlags(t, "flags")
			case wire.Touch, wire.Gat:
				class = rapid.IntRange(0, len(ttlClassNames)-1).Draw(t, "ttl")
				c.Exptime = ttlOf(class, now)
			case wire.Append, wire.Prepend:
				c.Value = mkValue(rapid.Uint32Range(0, 99).Draw(t, "valSeed"), rapid.SampledFrom([]int{1, 1200}).Draw(t, "valLen"))
			}
			descr = append(descr, c.String())
			liveBefore := model.Live(c.Key, now) != nil
			exp := model.Apply(c, now)
			l1From, l2From := st.L1.LogLen(), 0
			if st.L2 != nil {
				l2From = st.L2.LogLen()
			}
			got, err := ses.client(c.Port).Do(c)
			if err != nil {
				undecidedOrHang(t, rec, st, ses.client(c.Port), err, fmt.Sprintf("C09 %s step %d: %v", cfg, i, err))
			}
			if msg := compare(c, true, exp, got); msg != "" {
				fail(i, "reply: "+msg)
			}
			if class >= 0 && exp.Class == refmodel.OK && (kind != wire.Gat || exp.Hits[0] != nil) {
				if prev, ok := lastClass[c.Key]; ok && prev != class && liveBefore {
					nt = true // a TTL-changing command follows a store with a different TTL class
				}
				lastClass[c.Key] = class
			}
			if kind == wire.Get && c.Port == 0 {
				for _, k := range c.Keys {
					if lastClass["evicted:"+k] == 1 && model.Live(k, now) != nil {
						nt = true // back-fill after an eviction of a key with a finite TTL
						delete(lastClass, "evicted:"+k)
					}
				}
			}
			check(i)
			if msg := storeExpiries("L1", st.L1.Log()[l1From:], cfg.L1 == "chunked", model, keys, nowUnix()); msg != "" {
				fail(i, msg)
			}
			if st.L2 != nil {
				if msg := storeExpiries("L2", st.L2.Log()[l2From:], false, model, keys, nowUnix()); msg != "" {
					fail(i, msg)
				}
			}
			for _, f := range []*fakemc.Server{st.L1, st.L2} {
				if f != nil {
					if bad := f.Bad(); len(bad) > 0 {
						fail(i, "malformed backend request: "+bad[0])
					}
				}
			}
		}
		rec.Case(nt, cfg.String()+strings.Join(descr, "|"), "cfg:"+cfg.String())
		if rec.WantSample(nt) {
			rec.Sample(nt, map[string]interface{}{"config": cfg.String(), "sequence": descr})
		}
	})
}

// TestC09Aging: TTL mistakes that only show when time passes between the
// command that fixed the expiry and a later command that must not move it
// (an append/prepend that rewrites a chunked item, a get that re-populates
// L1).  One real sleep is shared by all configurations.
func TestC09Aging(t *testing.T) {
	rec := evid.For("C09")
	type env struct {
		cfg   stack.Config
		st    *stack.Stack
		ses   *session
		model *refmodel.Model
	}
	keys := []string{"g1", "g2", "g3", "g4", "g5", "g6", "g7", "g8"}
	var envs []*env
	for _, shape := range []string{"l1only", "l1l2+batch"} {
		for _, l1 := range []string{"std", "chunked", "batched"} {
			l2s := []string{"-"}
			if shape != "l1only" {
				l2s = []string{"std", "batched"}
			}
			for _, l2 := range l2s {
				cfg := stack.Config{Shape: shape, Lock: "nolock", L1: l1, L2: l2}
				st := stack.Get(cfg)
				envs = append(envs, &env{cfg: cfg, st: st, ses: newSession(st, true), model: refmodel.New()})
			}
		}
	}
	fail := func(e *env, phase, msg string) {
		p := rec.Violation("TestC09Aging", map[string]interface{}{"config": e.cfg.String(), "phase": phase, "problem": msg})
		t.Errorf("C09 aging %s, %s: %s; replay %s", e.cfg, phase, msg, p)
	}
	do := func(e *env, c wire.Cmd) bool {
		now := nowUnix()
		exp := e.model.Apply(c, now)
		got, err := e.ses.client(c.Port).Do(c)
		if err != nil {
			fail(e, c.String(), "harness: "+err.Error())
			return false
		}
		if msg := compare(c, true, exp, got); msg != "" {
			fail(e, c.String(), "reply: "+msg)
			return false
		}
		return true
	}
	check := func(e *env, phase string) {
		now := nowUnix()
		if e.cfg.Shape == "l1only" {
			if msg := tierDeadlines("L1", e.st.L1, e.cfg.L1 == "chunked", e.model, keys, now, true); msg != "" {
				fail(e, phase, msg)
			}
			return
		}
		if msg := tierDeadlines("L2", e.st.L2, false, e.model, keys, now, true); msg != "" {
			fail(e, phase, msg)
		}
		if msg := tierDeadlines("L1", e.st.L1, e.cfg.L1 == "chunked", e.model, keys, now, false); msg != "" {
			fail(e, phase, msg)
		}
	}
	big := mkValue(5, 2500)
	for _, e := range envs {
		batch := 0
		if e.cfg.Shape == "l1l2+batch" {
			batch = 1
		}
		ok := do(e, wire.Cmd{Kind: wire.Set, Key: "g1", Value: big, Flags: 1, Exptime: 100}) &&
			do(e, wire.Cmd{Kind: wire.Touch, Key: "g1", Exptime: 200}) &&
			do(e, wire.Cmd{Kind: wire.Set, Key: "g2", Value: []byte("two"), Flags: 2, Exptime: 0}) &&
			do(e, wire.Cmd{Kind: wire.Gat, Key: "g2", Exptime: 300}) &&
			do(e, wire.Cmd{Kind: wire.Set, Key: "g3", Value: big, Flags: 3, Exptime: 5000}) &&
			do(e, wire.Cmd{Kind: wire.Set, Key: "g4", Value: []byte("four"), Flags: 4, Exptime: 100, Port: batch}) &&
			do(e, wire.Cmd{Kind: wire.Set, Key: "g5", Value: big, Flags: 5, Exptime: 400}) &&
			do(e, wire.Cmd{Kind: wire.Touch, Key: "g5", Exptime: 500, Port: batch}) &&
			// the 30-day boundary: the largest relative TTL, and one second less
			do(e, wire.Cmd{Kind: wire.Set, Key: "g6", Value: big, Flags: 6, Exptime: 2592000}) &&
			do(e, wire.Cmd{Kind: wire.Set, Key: "g7", Value: []byte("seven"), Flags: 7, Exptime: 100}) &&
			do(e, wire.Cmd{Kind: wire.Touch, Key: "g7", Exptime: 2592000}) &&
			do(e, wire.Cmd{Kind: wire.Set, Key: "g8", Value: big, Flags: 8, Exptime: 50}) &&
			do(e, wire.Cmd{Kind: wire.Gat, Key: "g8", Exptime: 2591999})
		if ok {
			check(e, "before the pause")
		}
	}
	time.Sleep(6 * time.Second)
	for _, e := range envs {
		batch := 0
		if e.cfg.Shape == "l1l2+batch" {
			batch = 1
			// force a re-population of L1 for g3 and g5
			if e.cfg.L1 == "chunked" {
				e.st.L1.Evict("g3-meta", "g3-0", "g3-1", "g3-2", "g5-meta", "g5-0", "g5-1", "g5-2")
			} else {
				e.st.L1.Evict("g3", "g5")
			}
		}
		ok := do(e, wire.Cmd{Kind: wire.Append, Key: "g1", Value: []byte("<late append>")}) &&
			do(e, wire.Cmd{Kind: wire.Prepend, Key: "g2", Value: []byte("<late prepend>"), Port: batch}) &&
			do(e, wire.Cmd{Kind: wire.Get, Keys: []string{"g3", "g5", "g1"}}) &&
			do(e, wire.Cmd{Kind: wire.Append, Key: "g4", Value: []byte("<late append>")}) &&
			do(e, wire.Cmd{Kind: wire.Prepend, Key: "g5", Value: []byte("<p>")}) &&
			do(e, wire.Cmd{Kind: wire.Append, Key: "g6", Value: []byte("<a6>")}) &&
			do(e, wire.Cmd{Kind: wire.Prepend, Key: "g7", Value: []byte("<p7>"), Port: batch}) &&
			do(e, wire.Cmd{Kind: wire.Append, Key: "g8", Value: []byte("<a8>")})
		if ok {
			check(e, "after a 6 s pause followed by append/prepend/get")
		}
		rec.Case(true, "aging|"+e.cfg.String(), "aging")
		e.ses.close()
	}
	rec.Sample(true, map[string]interface{}{"aging_scenario": "set/touch/gat with TTLs, 6 s pause, then append/prepend and a re-populating get; deadlines must still be the ones fixed before the pause", "configurations": len(envs)})
}
