package props

import (
	"fmt"
	"math/bits"
	"net/http"
	"net/http/httptest"
	"runtime"
	"sort"
	"strconv"
	"strings"
	"sync"
	"sync/atomic"
	"testing"
	"time"

	"github.com/netflix/rend/metrics"
	"pgregory.net/rapid"

	"verifharness/evid"
)

// readMetrics calls the registered /metrics handler in-process and returns
// name|sortedtags -> value (as text).
var metricsMu sync.Mutex

func readMetrics() map[string]string {
	metricsMu.Lock()
	defer metricsMu.Unlock()
	return readMetricsUnserialised()
}

// readMetricsUnserialised is one GET of the endpoint; concurrent callers are
// concurrent requests to the endpoint.
func readMetricsUnserialised() map[string]string {
	runtime.GC() // the endpoint's GC-pause summary needs at least one completed GC
	return readMetricsNoGC()
}

func readMetricsNoGC() map[string]string {
	rec := httptest.NewRecorder()
	req := httptest.NewRequest("GET", "/metrics", nil)
	http.DefaultServeMux.ServeHTTP(rec, req)
	out := map[string]string{}
	for _, line := range strings.Split(rec.Body.String(), "\n") {
		sp := strings.LastIndexByte(line, ' ')
		if sp < 0 {
			continue
		}
		id, val := line[:sp], line[sp+1:]
		parts := strings.Split(id, "|")
		tags := parts[1:]
		sort.Strings(tags)
		out[parts[0]+"|"+strings.Join(tags, "|")] = val
	}
	return out
}

func metricU(m map[string]string, name string, tags ...string) (uint64, bool) {
	sort.Strings(tags)
	v, ok := m[name+"|"+strings.Join(tags, "|")]
	if !ok {
		return 0, false
	}
	u, err := strconv.ParseUint(v, 10, 64)
	return u, err == nil
}

var (
	c18Once         sync.Once
	c18Counters     []uint32
	c18CounterNames []string
	c18CounterTags  [][]string
	c18Hist         uint32
	c18HistS        uint32
)

func c18Setup() {
	c18Once.Do(func() {
		for i := 0; i < 4; i++ {
			c18Counters = append(c18Counters, metrics.AddCounter(fmt.Sprintf("verif_c18_counter%d", i), nil))
			c18CounterNames = append(c18CounterNames, fmt.Sprintf("verif_c18_counter%d", i))
			c18CounterTags = append(c18CounterTags, nil)
		}
		// a family of counters that share a name and differ by tags only (as rend's own
		// batch_connect{attempt=N} do), registered most specific first, the untagged
		// one in the middle: each is a counter of its own
		for _, tg := range []metrics.Tags{{"side": "l1", "attempt": "0"}, {"side": "l1"}, nil, {"side": "l2"}, {"attempt": "0"}, {"side": "l1", "attempt": "1"}} {
			c18Counters = append(c18Counters, metrics.AddCounter("verif_c18_family", tg))
			c18CounterNames = append(c18CounterNames, "verif_c18_family")
			var tags []string
			for k, v := range tg {
				tags = append(tags, k+"*"+v)
			}
			c18CounterTags = append(c18CounterTags, tags)
		}
		c18Hist = metrics.AddHistogram("verif_c18_plain", false, nil)
		c18HistS = metrics.AddHistogram("verif_c18_sampled", true, nil)
		readMetrics() // start a fresh period
	})
}

func counterVal(m map[string]string, i int) uint64 {
	v, _ := metricU(m, c18CounterNames[i], append([]string{"type*counter", "dataType*uint64"}, c18CounterTags[i]...)...)
	return v
}

func TestC18Counters(t *testing.T) {
	c18Setup()
	rec := evid.For("C18")
	rapid.Check(t, func(t *rapid.T) {
		g := rapid.IntRange(1, 32).Draw(t, "goroutines")
		type inc struct {
			ctr int
			by  uint64
		}
		plans := make([][]inc, g)
		want := make([]uint64, len(c18Counters))
		for w := range plans {
			for i := rapid.IntRange(1, 40).Draw(t, "nincs"); i > 0; i-- {
				in := inc{ctr: rapid.IntRange(0, len(c18Counters)-1).Draw(t, "ctr")}
				if rapid.Bool().Draw(t, "by1") {
					in.by = 1
				} else {
					in.by = rapid.Uint64Range(0, 1<<40).Draw(t, "by")
					if rapid.IntRange(0, 7).Draw(t, "hugeBy") == 0 {
						// sums travel through the whole uint64 range (also its upper half) and wrap
						in.by = rapid.Uint64Range(1<<61, 1<<63).Draw(t, "byHuge")
					}
				}
				plans[w] = append(plans[w], in)
				want[in.ctr] += in.by
			}
		}
		before := readMetrics()
		var wg sync.WaitGroup
		for _, p := range plans {
			wg.Add(1)
			go func(p []inc) {
				defer wg.Done()
				for _, in := range p {
					if in.by == 1 {
						metrics.IncCounter(c18Counters[in.ctr])
					} else {
						metrics.IncCounterBy(c18Counters[in.ctr], in.by)
					}
				}
			}(p)
		}
		wg.Wait()
		after := readMetrics()
		for i := range c18Counters {
			if d := counterVal(after, i) - counterVal(before, i); d != want[i] {
				t.Fatalf("C18 counter %d (%s %v): reported increase %d, increments applied sum to %d (%d goroutines)", i, c18CounterNames[i], c18CounterTags[i], d, want[i], g)
			}
		}
		rec.Case(g >= 2, fmt.Sprintf("ctr|%v", plans), "counters")
	})
}

var pctlTags = func() []string {
	var out []string
	for i := 0; i <= 20; i++ {
		out = append(out, fmt.Sprintf("percentile%d", i*5))
	}
	return append(out, "percentile99", "percentile99.9")
}()

// histPeriod reads one reporting period of a histogram.
type histPeriod struct {
	Count, Kept uint64
	Pctls       map[string]uint64
	HasPctls    bool
}

func readHist(m map[string]string, name string) histPeriod {
	hp := histPeriod{Pctls: map[string]uint64{}}
	hp.Count, _ = metricU(m, "hist_"+name, "type*counter", "dataType*uint64", "statistic*count")
	hp.Kept, _ = metricU(m, "hist_"+name, "type*counter", "dataType*uint64", "statistic*kept")
	for _, p := range pctlTags {
		if v, ok := metricU(m, "hist_"+name, "type*counter", "dataType*uint64", "statistic*"+p); ok {
			hp.Pctls[p] = v
			hp.HasPctls = true
		}
	}
	return hp
}

func genObservation(t *rapid.T) uint64 {
	switch rapid.IntRange(0, 5).Draw(t, "mag") {
	case 0:
		return rapid.Uint64Range(0, 20).Draw(t, "v")
	case 1:
		return rapid.Uint64Range(0, 100000).Draw(t, "v")
	case 2:
		return uint64(1) << uint(rapid.IntRange(0, 62).Draw(t, "pow"))
	case 3:
		return rapid.Uint64Range(0, 1<<63-1).Draw(t, "v")
	case 4:
		return 1<<63 - 1
	default:
		return rapid.Uint64Range(1000, 5000000).Draw(t, "v") // latency-like
	}
}

func checkPeriod(hp histPeriod, obs []uint64, sampled bool) string {
	if hp.Count != uint64(len(obs)) {
		return fmt.Sprintf("reported count %d, %d observations were made in the period", hp.Count, len(obs))
	}
	if len(obs) == 0 || !hp.HasPctls {
		return ""
	}
	set := map[uint64]bool{}
	mn, mx := obs[0], obs[0]
	for _, o := range obs {
		set[o] = true
		if o < mn {
			mn = o
		}
		if o > mx {
			mx = o
		}
	}
	lo, hi := hp.Pctls["percentile0"], hp.Pctls["percentile100"]
	if lo != mn || hi != mx {
		return fmt.Sprintf("reported min %d / max %d, observations have min %d / max %d", lo, hi, mn, mx)
	}
	for _, p := range pctlTags {
		v := hp.Pctls[p]
		if v < lo || v > hi {
			return fmt.Sprintf("%s = %d lies outside [min %d, max %d]", p, v, lo, hi)
		}
		if !set[v] {
			return fmt.Sprintf("%s = %d is not one of the period's %d observations", p, v, len(obs))
		}
	}
	return ""
}

func TestC18Histograms(t *testing.T) {
	c18Setup()
	rec := evid.For("C18")
	rapid.Check(t, func(t *rapid.T) {
		sampled := rapid.Bool().Draw(t, "sampled")
		id, name := c18Hist, "verif_c18_plain"
		if sampled {
			id, name = c18HistS, "verif_c18_sampled"
		}
		periods := rapid.IntRange(1, 3).Draw(t, "periods")
		nt := false
		var sizes []int
		var fph uint64
		readMetrics() // start from a fresh period even after a failed (shrinking) run
		for p := 0; p < periods; p++ {
			var n int
			switch rapid.IntRange(0, 9).Draw(t, "sizeClass") {
			case 0, 1, 2:
				n = rapid.IntRange(1, 3).Draw(t, "n")
			case 3:
				n = rapid.IntRange(32760, 32780).Draw(t, "n")
			case 4:
				n = rapid.IntRange(60000, 100000).Draw(t, "n")
			default:
				n = rapid.IntRange(1, 400).Draw(t, "n")
			}
			sizes = append(sizes, n)
			obs := make([]uint64, n)
			if n <= 400 {
				for i := range obs {
					obs[i] = genObservation(t)
				}
			} else {
				seed := rapid.Uint64().Draw(t, "bulkSeed")
				shift := uint(rapid.IntRange(1, 40).Draw(t, "bulkShift"))
				x := seed | 1
				for i := range obs {
					x = x*6364136223846793005 + 1442695040888963407
					obs[i] = x >> shift
				}
			}
			for _, o := range obs {
				metrics.ObserveHist(id, o)
				fph = fph*1099511628211 + o
			}
			hp := readHist(readMetrics(), name)
			if msg := checkPeriod(hp, obs, sampled); msg != "" {
				show := obs
				if len(show) > 12 {
					show = show[:12]
				}
				t.Fatalf("C18 histogram %s period %d (%d observations, first %v): %s; percentiles %v", name, p, n, show, msg, hp.Pctls)
			}
			if n <= 3 || n > 32768 {
				nt = true
			}
		}
		rec.Case(nt, fmt.Sprintf("hist|%v|%v|%d", sampled, sizes, fph), fmt.Sprintf("hist-sampled=%v", sampled))
		if rec.WantSample(nt) {
			rec.Sample(nt, map[string]interface{}{"sampled": sampled, "observations_per_period": sizes})
		}
	})
}

// TestC18Stale: consecutive full periods (more observations than the sample
// ring holds) whose values come from disjoint ranges, shaped so that a sample
// slot left over from an earlier period would sort to a rank that is reported:
// the last ring-full of a period consists of j values below every earlier
// period's values and ringSize-j values above them, with j at or next to a
// reported rank.  Oracle as for every period: count, exact min/max, every
// percentile one of this period's observations.
func TestC18Stale(t *testing.T) {
	c18Setup()
	rec := evid.For("C18")
	const ring = 32768
	rapid.Check(t, func(t *rapid.T) {
		readMetrics()
		periods := rapid.IntRange(3, 5).Draw(t, "periods")
		var shape []string
		for p := 0; p < periods; p++ {
			n := ring + rapid.SampledFrom([]int{0, 0, 1, 2, 100, ring / 2, ring, ring + 1}).Draw(t, "extra")
			// reported ranks of a full ring: k*ring/20, 99 %, 99.9 %; j next to one of them or anywhere
			var j int
			switch rapid.IntRange(0, 3).Draw(t, "rankKind") {
			case 0:
				j = rapid.IntRange(0, ring).Draw(t, "anyRank")
			case 1:
				j = ring*99/100 + rapid.IntRange(-2, 2).Draw(t, "off")
			case 2:
				j = ring*999/1000 + rapid.IntRange(-2, 2).Draw(t, "off")
			default:
				j = ring*rapid.IntRange(1, 19).Draw(t, "twentieth")/20 + rapid.IntRange(-2, 2).Draw(t, "off")
			}
			if j < 0 {
				j = 0
			}
			if j > ring {
				j = ring
			}
			// this period's values: low ones in [p*2^20, p*2^20+2^19), high ones from 2^50+(p+1)*2^40 up:
			// every earlier period's high values lie between this period's low and high values
			low := uint64(p) << 20
			high := uint64(1)<<50 + uint64(p+1)<<40
			obs := make([]uint64, 0, n)
			for i := 0; i < n-ring; i++ {
				obs = append(obs, high+uint64(i%1000))
			}
			for i := 0; i < j; i++ {
				obs = append(obs, low+uint64(i%500000))
			}
			for i := 0; i < ring-j; i++ {
				obs = append(obs, high+1000+uint64(i%1000))
			}
			for _, o := range obs {
				metrics.ObserveHist(c18Hist, o)
			}
			hp := readHist(readMetrics(), "verif_c18_plain")
			if msg := checkPeriod(hp, obs, false); msg != "" {
				t.Fatalf("C18 stale-sample check, period %d of %v+[n=%d, %d low values in the last %d]: %s; percentiles %v", p, shape, n, j, ring, msg, hp.Pctls)
			}
			shape = append(shape, fmt.Sprintf("n=%d/low=%d", n, j))
		}
		rec.Case(true, "stale|"+strings.Join(shape, "|"), "hist-consecutive-full-periods")
		if rec.WantSample(true) {
			rec.Sample(true, map[string]interface{}{"consecutive_full_periods": shape})
		}
	})
}

// TestC18PollRace: a burst that fills the sample ring, then a trickle of small
// values that starts while the period is being read out, then a second read.
// Whatever the reader does outside its lock (it sorts the ring it took), the
// quiet period's report must be consistent in itself -- min <= every
// percentile <= max -- and every percentile must be one of the small values
// (the large ones were all observed before the first read began).  Every other
// round an extra read flips which of the two rings takes the burst.
func TestC18PollRace(t *testing.T) {
	c18Setup()
	rec := evid.For("C18")
	rounds := 24
	if thorough() {
		rounds = 400
	}
	shard, _ := evid.Shard()
	readMetrics()
	for round := 0; round < rounds; round++ {
		var wg sync.WaitGroup
		for w := 0; w < 4; w++ {
			wg.Add(1)
			go func(w int) {
				defer wg.Done()
				for i := 0; i < 8300; i++ {
					metrics.ObserveHist(c18Hist, uint64(1000000+w*10000+i))
				}
			}(w)
		}
		wg.Wait()
		// small values at a steady pace (one every few microseconds) from before the
		// read until it has returned: the first one after the reader's buffer swap
		// arrives while the reader is still working on the ring it took
		small := map[uint64]bool{}
		nsmall := 0
		pace := time.Duration(2+(round+shard)%12) * time.Microsecond
		var stop int32
		started := make(chan struct{})
		trickled := make(chan struct{})
		go func() {
			defer close(trickled)
			for i := 0; atomic.LoadInt32(&stop) == 0 && i < 200000; i++ {
				v := uint64(10 + (i*7+round)%190)
				small[v] = true
				nsmall++
				metrics.ObserveHist(c18Hist, v)
				if i == 0 {
					close(started)
				}
				for t0 := time.Now(); time.Since(t0) < pace; {
				}
			}
		}()
		<-started
		readMetrics()
		atomic.StoreInt32(&stop, 1)
		<-trickled
		hp := readHist(readMetrics(), "verif_c18_plain")
		msg := ""
		if hp.HasPctls && hp.Count > 0 {
			lo, hi := hp.Pctls["percentile0"], hp.Pctls["percentile100"]
			for _, p := range pctlTags {
				v := hp.Pctls[p]
				if v < lo || v > hi {
					msg = fmt.Sprintf("%s = %d lies outside [min %d, max %d]", p, v, lo, hi)
				} else if !small[v] {
					msg = fmt.Sprintf("%s = %d is not one of the values observed since the previous read began", p, v)
				}
			}
		}
		if hp.Count > uint64(nsmall) {
			msg = fmt.Sprintf("count %d, but only %d observations were made since the previous read began", hp.Count, nsmall)
		}
		rec.Case(true, fmt.Sprintf("pollrace|%d|%d|%d", shard, round, nsmall), "hist-quiet-period-after-burst")
		if msg != "" {
			p := rec.Violation("TestC18PollRace", map[string]interface{}{"round": round, "small_values": nsmall, "problem": msg})
			t.Fatalf("C18 poll race, round %d (burst of 33200 values around 10^6, then %d values in 10..199 at one per %v while the period is read): the next period (%d observations) reports %s; percentiles %v; replay %s", round, nsmall, pace, hp.Count, msg, hp.Pctls, p)
		}
		if round%2 == 1 {
			readMetrics() // flip the ring parity for the next burst
		}
	}
	rec.Sample(true, map[string]interface{}{"poll_race_rounds": rounds, "burst": 33200, "small_value_pace_us": "2..13"})
}

// TestC18Pollers: several readers of the metrics endpoint at once (two
// monitoring systems scraping the same process) next to observers.  Every
// report must be consistent in itself, and over all reports of all readers the
// counts must add up to the observations made.
func TestC18Pollers(t *testing.T) {
	c18Setup()
	rec := evid.For("C18")
	rounds := 4
	if thorough() {
		rounds = 40
	}
	for round := 0; round < rounds; round++ {
		readMetrics()
		pollers := []int{2, 4, 3, 8}[round%4]
		observers := 4
		var made uint64
		var stop, stopObs int32
		var mu sync.Mutex
		var total uint64
		reads := 0
		problem := ""
		var pwg, owg sync.WaitGroup
		for p := 0; p < pollers; p++ {
			pwg.Add(1)
			go func() {
				defer pwg.Done()
				for atomic.LoadInt32(&stop) == 0 {
					hp := readHist(readMetricsNoGC(), "verif_c18_plain")
					mu.Lock()
					total += hp.Count
					reads++
					if hp.HasPctls && hp.Count > 0 {
						lo, hi := hp.Pctls["percentile0"], hp.Pctls["percentile100"]
						for _, pt := range pctlTags {
							if v := hp.Pctls[pt]; v < lo || v > hi {
								problem = fmt.Sprintf("a report of %d observations has %s = %d outside [min %d, max %d]", hp.Count, pt, v, lo, hi)
							}
						}
					}
					mu.Unlock()
				}
			}()
		}
		for w := 0; w < observers; w++ {
			owg.Add(1)
			go func(w int) {
				defer owg.Done()
				n := uint64(0)
				for i := 0; atomic.LoadInt32(&stopObs) == 0; i++ {
					metrics.ObserveHist(c18Hist, uint64(1000+w*100000000+i))
					n++
					if i%4096 == 0 {
						runtime.Gosched()
					}
				}
				atomic.AddUint64(&made, n)
			}(w)
		}
		time.Sleep(1500 * time.Millisecond) // observers and readers overlap for this long
		atomic.StoreInt32(&stopObs, 1)
		owg.Wait()
		atomic.StoreInt32(&stop, 1)
		pwg.Wait()
		hp := readHist(readMetrics(), "verif_c18_plain")
		total += hp.Count
		rec.Case(reads >= 2*pollers, fmt.Sprintf("pollers|%d|%d|%d", pollers, round, reads), "hist-concurrent-readers")
		if problem != "" {
			p := rec.Violation("TestC18Pollers", map[string]interface{}{"pollers": pollers, "problem": problem})
			t.Fatalf("C18 with %d concurrent readers of the endpoint: %s; replay %s", pollers, problem, p)
		}
		if total != made {
			p := rec.Violation("TestC18Pollers", map[string]interface{}{"pollers": pollers, "observed": made, "reported_sum": total, "reads": reads})
			t.Fatalf("C18 with %d concurrent readers: %d observations made, the counts of all %d reports sum to %d; replay %s", pollers, made, reads+1, total, p)
		}
	}
	rec.Sample(true, map[string]interface{}{"concurrent_endpoint_readers": "2..8", "observers": 4, "seconds_per_round": 1.5})
}

// TestC18Torn: observers next to several readers polling as fast as they can.
// Readers that follow each other closely make periods of a handful of
// observations, in which nothing is overwritten in the sample ring.  The
// observers take their values from one shared counter, descending in even
// rounds and ascending in odd ones, and pace themselves in half of the rounds:
// an observation that were folded into the extremes of one period but counted
// and kept in the next would be the largest (smallest) value kept in that next
// period and lie outside its reported [min, max].  Every report must have
// min <= every percentile <= max, and the counts of all reports must add up to
// the observations made.
func TestC18Torn(t *testing.T) {
	c18Setup()
	rec := evid.For("C18")
	rounds := 4
	if thorough() {
		rounds = 60
	}
	shard, _ := evid.Shard()
	for round := 0; round < rounds; round++ {
		readMetrics()
		descending := (round+shard)%2 == 0
		paced := (round/2+shard)%2 == 0
		pollers := []int{4, 6, 3, 8}[(round+shard)%4]
		next := uint64(1) << 40
		var made uint64
		var stop, stopObs int32
		var owg, pwg sync.WaitGroup
		for w := 0; w < 4; w++ {
			owg.Add(1)
			go func() {
				defer owg.Done()
				n := uint64(0)
				for atomic.LoadInt32(&stopObs) == 0 {
					var v uint64
					if descending {
						v = atomic.AddUint64(&next, ^uint64(0))
					} else {
						v = atomic.AddUint64(&next, 1)
					}
					metrics.ObserveHist(c18Hist, v)
					n++
					if paced {
						for i := 0; i < 20; i++ {
							runtime.Gosched()
						}
					} else if n%4096 == 0 {
						runtime.Gosched()
					}
				}
				atomic.AddUint64(&made, n)
			}()
		}
		var mu sync.Mutex
		var total uint64
		reads, nonEmpty, small := 0, 0, 0
		problem := ""
		check := func(hp histPeriod) {
			mu.Lock()
			defer mu.Unlock()
			total += hp.Count
			reads++
			if !hp.HasPctls || hp.Count == 0 {
				return
			}
			nonEmpty++
			if hp.Count <= 8 {
				small++
			}
			lo, hi := hp.Pctls["percentile0"], hp.Pctls["percentile100"]
			for _, pt := range pctlTags {
				if v := hp.Pctls[pt]; (v < lo || v > hi) && problem == "" {
					problem = fmt.Sprintf("report %d (%d observations, %d kept) has %s = %d outside [min %d, max %d]", reads, hp.Count, hp.Kept, pt, v, lo, hi)
				}
			}
		}
		for p := 0; p < pollers; p++ {
			pwg.Add(1)
			go func() {
				defer pwg.Done()
				for atomic.LoadInt32(&stop) == 0 {
					check(readHist(readMetricsNoGC(), "verif_c18_plain"))
				}
			}()
		}
		time.Sleep(1500 * time.Millisecond)
		atomic.StoreInt32(&stopObs, 1)
		owg.Wait()
		atomic.StoreInt32(&stop, 1)
		pwg.Wait()
		check(readHist(readMetrics(), "verif_c18_plain"))
		rec.Case(nonEmpty >= 100 && small >= 1, fmt.Sprintf("torn|%v|%v|%d|%d|%d|%d", descending, paced, pollers, shard, round, nonEmpty), "hist-small-periods-fast-readers")
		if problem != "" {
			p := rec.Violation("TestC18Torn", map[string]interface{}{"descending": descending, "paced": paced, "pollers": pollers, "problem": problem})
			t.Fatalf("C18 with 4 observers (shared counter, descending=%v, paced=%v) and %d fast readers: %s; replay %s", descending, paced, pollers, problem, p)
		}
		if total != made {
			p := rec.Violation("TestC18Torn", map[string]interface{}{"observed": made, "reported_sum": total, "reads": reads})
			t.Fatalf("C18 with 4 observers and %d fast readers: %d observations made, the counts of all %d reports sum to %d; replay %s", pollers, made, reads, total, p)
		}
		if round < 2 {
			rec.Sample(true, map[string]interface{}{"torn_reads": reads, "non_empty_periods": nonEmpty, "periods_of_at_most_8": small, "observations": made, "paced": paced, "readers": pollers})
		}
	}
}

// TestC18Concurrent: concurrent observers and a concurrent reader; no
// observation may be lost or double counted across the buffer swap.
func TestC18Concurrent(t *testing.T) {
	c18Setup()
	rec := evid.For("C18")
	rounds := 6
	if thorough() {
		rounds = 60
	}
	for round := 0; round < rounds; round++ {
		readMetrics()
		g := []int{2, 4, 8, 16}[round%4]
		per := 20000
		var wg sync.WaitGroup
		var stop int32
		var total uint64
		var reads int
		var problem string
		done := make(chan struct{})
		go func() {
			defer close(done)
			for atomic.LoadInt32(&stop) == 0 {
				hp := readHist(readMetrics(), "verif_c18_plain")
				total += hp.Count
				reads++
				if hp.HasPctls && hp.Count > 0 {
					lo, hi := hp.Pctls["percentile0"], hp.Pctls["percentile100"]
					for _, p := range pctlTags {
						if v := hp.Pctls[p]; v < lo || v > hi {
							problem = fmt.Sprintf("period of %d observations: %s = %d outside [min %d, max %d]", hp.Count, p, v, lo, hi)
						}
					}
				}
			}
		}()
		for w := 0; w < g; w++ {
			wg.Add(1)
			go func(w int) {
				defer wg.Done()
				for i := 0; i < per; i++ {
					metrics.ObserveHist(c18Hist, uint64(1000+w*per+i))
				}
			}(w)
		}
		wg.Wait()
		atomic.StoreInt32(&stop, 1)
		<-done
		hp := readHist(readMetrics(), "verif_c18_plain")
		total += hp.Count
		rec.Case(reads >= 2, fmt.Sprintf("conc|%d|%d|%d", g, round, reads), "hist-concurrent")
		if total != uint64(g*per) {
			p := rec.Violation("TestC18Concurrent", map[string]interface{}{"goroutines": g, "observed": g * per, "reported_sum": total, "reads": reads})
			t.Fatalf("C18 concurrent: %d observations made, counts over %d reads sum to %d; replay %s", g*per, reads+1, total, p)
		}
		if problem != "" {
			p := rec.Violation("TestC18Concurrent", map[string]interface{}{"goroutines": g, "problem": problem})
			t.Fatalf("C18 concurrent: %s; replay %s", problem, p)
		}
	}
}

func c18BoundaryValues() []uint64 {
	seen := map[uint64]bool{}
	var out []uint64
	add := func(v uint64) {
		if v <= 1<<63-1 && !seen[v] {
			seen[v] = true
			out = append(out, v)
		}
	}
	for _, b := range metrics.VerifBucketValues() {
		add(uint64(b) - 1)
		add(uint64(b))
		add(uint64(b) + 1)
	}
	for k := uint(0); k < 64; k++ {
		add(1<<k - 1)
		add(1 << k)
		add(1<<k + 1)
	}
	for v := uint64(0); v <= 1024; v++ {
		add(v)
	}
	return out
}

func TestC18Buckets(t *testing.T) {
	rec := evid.For("C18")
	bounds := metrics.VerifBucketValues()
	vals := c18BoundaryValues()
	n := 1000000
	if thorough() {
		n = 10000000
	}
	x := uint64(evid.Seed())*0x9E3779B97F4A7C15 | 1
	for i := 0; i < n; i++ {
		x = x*6364136223846793005 + 1442695040888963407
		vals = append(vals, (x>>1)>>(x>>58))
	}
	boundary := len(c18BoundaryValues())
	sort.Slice(vals, func(i, j int) bool { return vals[i] < vals[j] })
	prevIdx, prevVal := uint64(0), uint64(0)
	for i, v := range vals {
		idx := metrics.VerifGetBucket(v)
		msg := ""
		switch {
		case idx >= uint64(len(bounds)):
			msg = fmt.Sprintf("bucket index %d outside the table of %d bounds", idx, len(bounds))
		case uint64(bounds[idx]) < v:
			msg = fmt.Sprintf("value %d is counted in bucket %d whose upper bound %d is below the value", v, idx, bounds[idx])
		case i > 0 && idx < prevIdx:
			msg = fmt.Sprintf("bucket index decreases: value %d -> bucket %d, but smaller value %d -> bucket %d", v, idx, prevVal, prevIdx)
		}
		if msg != "" {
			p := rec.Violation("TestC18Buckets", map[string]interface{}{"value": v, "bucket": idx})
			t.Fatalf("C18 buckets: %s; replay %s", msg, p)
		}
		prevIdx, prevVal = idx, v
	}
	rec.ClassN("bucket-values-checked", int64(len(vals)))
	for _, v := range c18BoundaryValues() {
		rec.Case(true, fmt.Sprintf("bucket|%d", v), "bucket-boundary")
	}
	rec.Case(true, fmt.Sprintf("bucket-random|%d|%d", n, evid.Seed()), "bucket-random-batch")
	rec.MarkExhaustive(fmt.Sprintf("bucket function on all %d boundary values: every table entry v-1,v,v+1; 2^k-1,2^k,2^k+1; 0..1024", boundary))

	// the hook agrees with what the endpoint reports: one observation increments exactly the bucket the hook names
	c18Setup()
	for _, v := range []uint64{0, 1, 15, 16, 21, 22, 1000, 1 << 20, 1<<40 + 3, 1<<63 - 1} {
		before := readMetrics()
		metrics.ObserveHist(c18Hist, v)
		after := readMetrics()
		want := fmt.Sprintf("percentile*T%04X", metrics.VerifGetBucket(v))
		changed := []string{}
		for k, av := range after {
			if strings.HasPrefix(k, "bhist_verif_c18_plain|") && before[k] != av {
				changed = append(changed, k)
			}
		}
		if len(changed) != 1 || !strings.Contains(changed[0], want) {
			t.Fatalf("C18 buckets: observing %d changed bucket counters %v, the bucket function names %s", v, changed, want)
		}
	}
}

func TestC18Lzcnt(t *testing.T) {
	rec := evid.For("C18")
	vals := append(c18BoundaryValues(), 0, 1<<63, 1<<64-1, 1<<63+1)
	x := uint64(evid.Seed())*0x9E3779B97F4A7C15 | 1
	for i := 0; i < 2000000; i++ {
		x = x*6364136223846793005 + 1442695040888963407
		vals = append(vals, x>>(x>>58))
	}
	for _, v := range vals {
		asm, port, ref := metrics.VerifLzcnt(v), portableLzcnt(v), uint64(bits.LeadingZeros64(v))
		if asm != ref || port != ref {
			p := rec.Violation("TestC18Lzcnt", map[string]interface{}{"value": v, "compiled": asm, "portable": port, "reference": ref})
			t.Fatalf("C18 lzcnt(%#x): compiled routine %d, portable routine %d, math/bits %d; replay %s", v, asm, port, ref, p)
		}
	}
	rec.Case(true, "lzcnt|0", "lzcnt")
	rec.Case(true, fmt.Sprintf("lzcnt|%d", len(vals)), "lzcnt")
	rec.ClassN("lzcnt-values-checked", int64(len(vals)))
}

var (
	c18BurstOnce sync.Once
	c18BurstIDs  []uint32
)

// TestC18Burst: several goroutines, released together, each record one
// distinct value into each of a set of histograms; then the period is read.
// Count, exact min and max, and percentile membership must hold however the
// concurrent updates of the extremes interleaved.
func TestC18Burst(t *testing.T) {
	c18Setup()
	rec := evid.For("C18")
	c18BurstOnce.Do(func() {
		for i := 0; i < 24; i++ {
			c18BurstIDs = append(c18BurstIDs, metrics.AddHistogram(fmt.Sprintf("verif_c18_burst%d", i), false, nil))
		}
	})
	rounds := 150
	if thorough() {
		rounds = 3000
	}
	readMetrics()
	x := uint64(evid.Seed())*0x9E3779B97F4A7C15 | 1
	for round := 0; round < rounds; round++ {
		g := []int{2, 3, 4, 8, 8, 16}[round%6]
		vals := make([]uint64, g)
		// ascending or descending runs make every observer a new extreme when it lands in order
		x = x*6364136223846793005 + 1442695040888963407
		base := 1000 + x>>44
		for i := range vals {
			vals[i] = base + uint64(i)*7
		}
		var ready, start int32
		var wg sync.WaitGroup
		for i := 0; i < g; i++ {
			wg.Add(1)
			go func(i int) {
				defer wg.Done()
				atomic.AddInt32(&ready, 1)
				for atomic.LoadInt32(&start) == 0 {
				}
				for _, id := range c18BurstIDs {
					metrics.ObserveHist(id, vals[i])
				}
			}(i)
		}
		for atomic.LoadInt32(&ready) < int32(g) {
			runtime.Gosched()
		}
		atomic.StoreInt32(&start, 1)
		wg.Wait()
		m := readMetrics()
		for hi := range c18BurstIDs {
			hp := readHist(m, fmt.Sprintf("verif_c18_burst%d", hi))
			if msg := checkPeriod(hp, vals, false); msg != "" {
				p := rec.Violation("TestC18Burst", map[string]interface{}{"goroutines": g, "values": vals, "problem": msg, "reported": hp.Pctls})
				t.Fatalf("C18 burst: %d goroutines observed %v at the same time: %s; reported %v; replay %s", g, vals, msg, hp.Pctls, p)
			}
		}
		rec.Case(true, fmt.Sprintf("burst|%d|%d|%d", evid.Seed(), round, g), "hist-concurrent-burst")
	}
	rec.Sample(true, map[string]interface{}{"burst": "g goroutines released together, one distinct value each into 24 histograms, then the period is read", "rounds": rounds})
}
