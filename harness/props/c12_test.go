package props

import (
	"bufio"
	"errors"
	"fmt"
	"io"
	"sync"
	"testing"
	"time"

	"github.com/netflix/rend/common"
	"github.com/netflix/rend/handlers"
	"github.com/netflix/rend/orcas"
	"github.com/netflix/rend/protocol/binprot"
	"github.com/netflix/rend/protocol/textprot"
	"github.com/netflix/rend/server"

	"verifharness/bufpipe"
	"verifharness/evid"
	"verifharness/wire"
)

var errInjected = errors.New("injected backend failure")

type c12Fault struct {
	Where string `json:"where"` // L1 | L2 | responder
	At    int    `json:"at"`    // 1-based call index
	Panic bool   `json:"panic"`
}

type c12Case struct {
	Program  sProgram `json:"program"`
	Fault    c12Fault `json:"fault"`
	Schedule []int    `json:"schedule"`
}

// runC12 runs thread 0's command with the injected failure and thread 1's
// follow-up command on the same key(s); returns (violation, fault fired, run).
func runC12(c c12Case) (string, bool, sRun) {
	fired := false
	run := execProgram(c.Program, c.Schedule, func(l1, l2 *tierStore, res []*recResponder) {
		switch c.Fault.Where {
		case "L1":
			l1.failAt, l1.failPanic, l1.failErr = c.Fault.At, c.Fault.Panic, errInjected
		case "L2":
			l2.failAt, l2.failPanic, l2.failErr = c.Fault.At, c.Fault.Panic, errInjected
		case "responder":
			res[0].failAt, res[0].failPanic, res[0].failErr = c.Fault.At, c.Fault.Panic, errInjected
		}
		go func() {}()
	})
	// did it fire?  (the tiers/responders are not returned; infer from panics and history)
	if c.Fault.Panic {
		fired = len(run.Panics) > 0
	} else {
		fired = true // for errors we cannot tell cheaply; callers bound At by a fault-free count
	}
	if run.Violation != "" {
		return run.Violation, fired, run
	}
	if run.MaxHeld > 1 {
		return fmt.Sprintf("a connection held %d key locks at the same time", run.MaxHeld), fired, run
	}
	return "", fired, run
}

func c12Kinds() []wire.Kind { return append(append([]wire.Kind{}, allKinds...), wire.GetE) }

// TestC12Faults: every command kind x orchestrator x fault site x call index x {error, panic},
// followed by a second connection's set on the same key.
func TestC12Faults(t *testing.T) {
	rec := evid.For("C12")
	shard, shards := evid.Shard()
	idx := 0
	cases := 0
	for _, orca := range []string{"", "batch", "l1only"} {
		for _, multi := range []bool{false, true} {
			for _, kind := range c12Kinds() {
				for _, nkeys := range []int{1, 2, 4} {
					if nkeys > 1 && kind != wire.Get && kind != wire.GetE {
						continue
					}
					for _, init := range []int{0, 1, 2} {
						idx++
						if idx%shards != shard {
							continue
						}
						keys := []string{"a", "b", "c", "a"}[:nkeys]
						p := sProgram{Multi: multi, Conc: 1, Threads: [][]sCmd{
							{{Kind: kind, Keys: keys, Batch: orca == "batch"}},
							{{Kind: wire.Set, Keys: []string{"a"}}, {Kind: wire.Get, Keys: []string{"b", "a"}, Batch: orca == "batch"}},
						}}
						if orca == "l1only" {
							p.Orca = "l1only"
						}
						switch init {
						case 1:
							p.Preset = []string{"a", "b"}
						case 2:
							p.L2Only = []string{"a", "c"}
						}
						for _, where := range []string{"L1", "L2", "responder"} {
							if where == "L2" && orca == "l1only" {
								continue
							}
							for _, pan := range []bool{false, true} {
								for at := 1; at <= 12; at++ {
									c := c12Case{Program: p, Fault: c12Fault{where, at, pan}}
									// thread 0 runs to completion first, then thread 1: schedule = always the lowest enabled
									msg, fired, run := runC12(c)
									cases++
									if pan && !fired {
										break // the command makes fewer calls at this site
									}
									nt := at > 1 || where != "L1"
									rec.Case(nt, fmt.Sprintf("flt|%s|%v|%d|%d|%d|%s|%v|%d", orca, multi, kind, nkeys, init, where, pan, at), "site:"+where, fmt.Sprintf("panic=%v", pan))
									if msg != "" {
										rp := rec.Violation("TestC12Replay", c)
										t.Errorf("C12 %s fault %+v: %s\nhistory:\n  %v\npanics: %v\nreplay %s", p, c.Fault, msg, run.History, run.Panics, rp)
										return
									}
									if nt && at == 2 && rec.WantSample(true) {
										rec.Sample(true, map[string]interface{}{"program": p.String(), "fault": c.Fault, "panics_observed": run.Panics, "history": run.History})
									}
								}
							}
						}
					}
				}
			}
		}
	}
	rec.ClassN("fault-cases", int64(cases))
	rec.MarkExhaustive("command kind (9, gets with 1/2/4 keys) x {L1L2 main, L1L2Batch, L1Only} x single/multi-reader x 3 initial states x fault site {L1, L2, responder} x call index 1.. x {error, panic}, each followed by a second connection on the same keys")
}

// TestC12Schedules: multi-key gets with overlapping keys in opposite orders
// (and writers) under every schedule: no deadlock, never two locks held.
func TestC12Schedules(t *testing.T) {
	rec := evid.For("C12")
	shard, shards := evid.Shard()
	var progs []sProgram
	for _, multi := range []bool{false, true} {
		for _, conc := range []uint8{0, 1, 2} {
			progs = append(progs,
				sProgram{Multi: multi, Conc: conc, Preset: []string{"a", "b"}, Threads: [][]sCmd{
					{{Kind: wire.Get, Keys: []string{"a", "b"}}}, {{Kind: wire.Get, Keys: []string{"b", "a"}}}}},
				sProgram{Multi: multi, Conc: conc, Preset: []string{"a"}, L2Only: []string{"b", "c"}, Threads: [][]sCmd{
					{{Kind: wire.Get, Keys: []string{"a", "b", "c"}}}, {{Kind: wire.Get, Keys: []string{"c", "b", "a"}, Batch: true}}}},
				sProgram{Multi: multi, Conc: conc, Preset: []string{"a", "b"}, Threads: [][]sCmd{
					{{Kind: wire.Get, Keys: []string{"a", "b"}}}, {{Kind: wire.Get, Keys: []string{"b", "a"}}}, {{Kind: wire.Set, Keys: []string{"a"}}, {Kind: wire.Set, Keys: []string{"b"}}}}},
				sProgram{Multi: multi, Conc: conc, Orca: "l1only", Preset: []string{"a", "b", "c"}, Threads: [][]sCmd{
					{{Kind: wire.Get, Keys: []string{"a", "b", "c"}}}, {{Kind: wire.Get, Keys: []string{"c", "a"}}}, {{Kind: wire.Delete, Keys: []string{"b"}}}}},
			)
		}
	}
	budget := 6000
	if thorough() {
		budget = 1 << 30
	}
	total := 0
	for pi, p := range progs {
		if pi%shards != shard {
			continue
		}
		var prefix []int
		n := 0
		for {
			run := execProgram(p, prefix, nil)
			n++
			total++
			msg := run.Violation
			if msg == "" && run.MaxHeld > 1 {
				msg = fmt.Sprintf("a connection held %d key locks at the same time", run.MaxHeld)
			}
			rec.Case(run.Switches >= 2, fmt.Sprintf("sch|%d|%v", pi, run.Trace), "multi-get-schedules")
			if msg != "" {
				sched := make([]int, len(run.Trace))
				for i, tr := range run.Trace {
					sched[i] = tr[0]
				}
				rp := rec.Violation("TestC12Replay", c12Case{Program: p, Schedule: sched})
				t.Errorf("C12 program %s schedule %v: %s; replay %s", p, sched, msg, rp)
				return
			}
			prefix = NextPrefix(run.Trace)
			if prefix == nil || n >= budget {
				if prefix != nil {
					rec.Class("schedule-enumeration-truncated")
				}
				break
			}
		}
	}
	rec.ClassN("multi-get-schedules", int64(total))
}

func TestC12Replay(t *testing.T) {
	path := evid.ReplayFile()
	if path == "" {
		t.Skip("no replay file")
	}
	var raw map[string]interface{}
	if _, err := evid.LoadReplay(path, &raw); err != nil {
		t.Fatal(err)
	}
	if _, ok := raw["kind"]; ok {
		var c c12Full
		evid.LoadReplay(path, &c)
		if msg := runC12Full(c); msg != "" {
			t.Fatalf("C12 replay %+v: %s", c, msg)
		}
		return
	}
	var c c12Case
	evid.LoadReplay(path, &c)
	if c.Fault.Where == "" {
		run := execProgram(c.Program, c.Schedule, nil)
		if run.Violation != "" || run.MaxHeld > 1 {
			t.Fatalf("C12 replay %s schedule %v: %s (max locks held %d)", c.Program, c.Schedule, run.Violation, run.MaxHeld)
		}
		return
	}
	if msg, _, run := runC12(c); msg != "" {
		t.Fatalf("C12 replay %s fault %+v: %s\nhistory %v", c.Program, c.Fault, msg, run.History)
	}
}

// ---------- full path: server loop + real parser/responder + Locked orca ----------

// mapHandler is a plain in-memory handler that panics or fails at a chosen call.
type mapHandler struct {
	pkind  string // what to panic with: string | error | eof | runtime
	mu     *sync.Mutex
	m      map[string]tierItem
	calls  *int
	failAt int
	panics bool
	closed *bool
}

func (h mapHandler) enter() error {
	*h.calls++
	if h.failAt > 0 && *h.calls == h.failAt {
		if h.panics {
			switch h.pkind {
			case "error":
				panic(fmt.Errorf("injected error value: %w", errInjected))
			case "eof":
				panic(io.EOF) // e.g. a layer below doing panic(err) after a cut connection
			case "runtime":
				var m map[string]int
				m["nil map"] = 1
			}
			panic("injected panic underneath")
		}
		return errInjected
	}
	return nil
}
func (h mapHandler) Set(c common.SetRequest) error {
	if err := h.enter(); err != nil {
		return err
	}
	h.mu.Lock()
	defer h.mu.Unlock()
	h.m[string(c.Key)] = tierItem{c.Data, c.Flags, c.Exptime}
	return nil
}
func (h mapHandler) Add(c common.SetRequest) error {
	if err := h.enter(); err != nil {
		return err
	}
	h.mu.Lock()
	defer h.mu.Unlock()
	if _, ok := h.m[string(c.Key)]; ok {
		return common.ErrKeyExists
	}
	h.m[string(c.Key)] = tierItem{c.Data, c.Flags, c.Exptime}
	return nil
}
func (h mapHandler) Replace(c common.SetRequest) error {
	if err := h.enter(); err != nil {
		return err
	}
	h.mu.Lock()
	defer h.mu.Unlock()
	if _, ok := h.m[string(c.Key)]; !ok {
		return common.ErrKeyNotFound
	}
	h.m[string(c.Key)] = tierItem{c.Data, c.Flags, c.Exptime}
	return nil
}
func (h mapHandler) Append(c common.SetRequest) error {
	if err := h.enter(); err != nil {
		return err
	}
	h.mu.Lock()
	defer h.mu.Unlock()
	it, ok := h.m[string(c.Key)]
	if !ok {
		return common.ErrItemNotStored
	}
	it.value = append(append([]byte(nil), it.value...), c.Data...)
	h.m[string(c.Key)] = it
	return nil
}
func (h mapHandler) Prepend(c common.SetRequest) error {
	if err := h.enter(); err != nil {
		return err
	}
	h.mu.Lock()
	defer h.mu.Unlock()
	it, ok := h.m[string(c.Key)]
	if !ok {
		return common.ErrItemNotStored
	}
	it.value = append(append([]byte(nil), c.Data...), it.value...)
	h.m[string(c.Key)] = it
	return nil
}
func (h mapHandler) Delete(c common.DeleteRequest) error {
	if err := h.enter(); err != nil {
		return err
	}
	h.mu.Lock()
	defer h.mu.Unlock()
	if _, ok := h.m[string(c.Key)]; !ok {
		return common.ErrKeyNotFound
	}
	delete(h.m, string(c.Key))
	return nil
}
func (h mapHandler) Touch(c common.TouchRequest) error {
	if err := h.enter(); err != nil {
		return err
	}
	h.mu.Lock()
	defer h.mu.Unlock()
	if _, ok := h.m[string(c.Key)]; !ok {
		return common.ErrKeyNotFound
	}
	return nil
}
func (h mapHandler) GAT(c common.GATRequest) (common.GetResponse, error) {
	if err := h.enter(); err != nil {
		return common.GetResponse{}, err
	}
	h.mu.Lock()
	defer h.mu.Unlock()
	it, ok := h.m[string(c.Key)]
	return common.GetResponse{Key: c.Key, Opaque: c.Opaque, Miss: !ok, Data: it.value, Flags: it.flags}, nil
}

// Get and GetE behave like the real handlers: the work runs in its own
// goroutine and the results travel over unbuffered channels, an error is sent
// on the error channel before the data channel is closed.  Injected panics are
// raised synchronously (a panic inside the goroutine would kill the process,
// which is not what is being tested here).
func (h mapHandler) failsWithin(n int) int {
	if h.failAt > 0 && *h.calls < h.failAt && h.failAt <= *h.calls+n {
		return h.failAt - *h.calls // 1-based position of the failing call among the next n
	}
	return 0
}

func (h mapHandler) Get(c common.GetRequest) (<-chan common.GetResponse, <-chan error) {
	failPos := h.failsWithin(len(c.Keys))
	if failPos > 0 && h.panics {
		*h.calls += failPos - 1
		h.enter() // panics
	}
	*h.calls += len(c.Keys)
	rc := make(chan common.GetResponse)
	ec := make(chan error)
	go func() {
		defer close(ec)
		defer close(rc)
		for i, k := range c.Keys {
			if failPos > 0 && i == failPos-1 {
				ec <- errInjected
				return
			}
			h.mu.Lock()
			it, ok := h.m[string(k)]
			h.mu.Unlock()
			rc <- common.GetResponse{Key: k, Opaque: c.Opaques[i], Quiet: c.Quiet[i], Miss: !ok, Data: it.value, Flags: it.flags}
		}
	}()
	return rc, ec
}

func (h mapHandler) GetE(c common.GetRequest) (<-chan common.GetEResponse, <-chan error) {
	failPos := h.failsWithin(len(c.Keys))
	if failPos > 0 && h.panics {
		*h.calls += failPos - 1
		h.enter() // panics
	}
	*h.calls += len(c.Keys)
	rc := make(chan common.GetEResponse)
	ec := make(chan error)
	go func() {
		defer close(ec)
		defer close(rc)
		for i, k := range c.Keys {
			if failPos > 0 && i == failPos-1 {
				ec <- errInjected
				return
			}
			h.mu.Lock()
			it, ok := h.m[string(k)]
			h.mu.Unlock()
			rc <- common.GetEResponse{Key: k, Opaque: c.Opaques[i], Quiet: c.Quiet[i], Miss: !ok, Data: it.value, Flags: it.flags}
		}
	}()
	return rc, ec
}

func (h mapHandler) Close() error { *h.closed = true; return nil }

type c12Full struct {
	Kind   string   `json:"kind"` // always "full"
	Orca   string   `json:"orca"` // l1only | l1l2 | batch
	Multi  bool     `json:"multi"`
	Binary bool     `json:"binary"`
	Cmd    wire.Cmd `json:"cmd"`
	PKind  string   `json:"panicValue"` // string | error | eof | runtime | "returned-error" (no panic: the call returns an error)
	Tier   string   `json:"tier"`       // L1 | L2
	At     int      `json:"at"`
	Preset bool     `json:"preset"`
}

// realLockSets: plain (uninstrumented) lock sets for the full-path test.
var (
	realLockMu   sync.Mutex
	realLockSets = map[bool]uint32{}
)

func realLockSlot(multi bool) uint32 {
	realLockMu.Lock()
	defer realLockMu.Unlock()
	if s, ok := realLockSets[multi]; ok {
		return s
	}
	_, s := orcas.Locked(orcas.L1Only, multi, 2)
	realLockSets[multi] = s
	return s
}

func runC12Full(c c12Full) string {
	slot := realLockSlot(c.Multi)
	var oc orcas.OrcaConst
	switch c.Orca {
	case "l1only":
		oc = orcas.L1Only
	case "l1l2":
		oc = orcas.L1L2
	default:
		oc = orcas.L1L2Batch
	}
	oc = orcas.LockedWithExisting(oc, slot)
	mu := &sync.Mutex{}
	m1, m2 := map[string]tierItem{}, map[string]tierItem{}
	if c.Preset {
		for _, k := range []string{"ka", "kb"} {
			m1[k] = tierItem{[]byte("init"), 1, 0}
			m2[k] = tierItem{[]byte("init"), 1, 0}
		}
	}
	var lastCalls [2]*int
	serve := func(failTier string, failAt int) (*wire.Client, *bool, *bool, chan struct{}) {
		cli, srv := bufpipe.Pair()
		c1, c2 := 0, 0
		lastCalls = [2]*int{&c1, &c2}
		cl1, cl2 := false, false
		h1 := mapHandler{mu: mu, m: m1, calls: &c1, closed: &cl1, panics: c.PKind != "returned-error", pkind: c.PKind}
		h2 := mapHandler{mu: mu, m: m2, calls: &c2, closed: &cl2, panics: c.PKind != "returned-error", pkind: c.PKind}
		if failTier == "L1" {
			h1.failAt = failAt
		} else if failTier == "L2" {
			h2.failAt = failAt
		}
		var l2 handlers.Handler = h2
		r, w := bufio.NewReader(srv), bufio.NewWriter(srv)
		var loop server.Server
		if c.Binary {
			loop = server.Default([]io.Closer{srv, h1, l2}, binprot.NewBinaryParser(r), oc(h1, l2, binprot.NewBinaryResponder(w)))
		} else {
			loop = server.Default([]io.Closer{srv, h1, l2}, textprot.NewTextParser(r), oc(h1, l2, textprot.NewTextResponder(w)))
		}
		done := make(chan struct{})
		go func() { loop.Loop(); close(done) }()
		client := wire.NewClient(cli, c.Binary)
		client.Timeout = 0
		return client, &cl1, &cl2, done
	}
	if c.At == 0 {
		// dry run: count the backend calls the command makes on each tier
		cl, _, _, done := serve("", 0)
		cl.Timeout = hangBound()
		cl.Do(c.Cmd)
		cl.Do(wire.Cmd{Kind: wire.Version})
		n1, n2 := *lastCalls[0], *lastCalls[1]
		cl.Close()
		<-done
		return fmt.Sprintf("COUNT %d %d", n1, n2)
	}
	// connection 1: the command with a panic underneath, pipelined with a sentinel
	cl, closed1, closed2, done := serve(c.Tier, c.At)
	sentinel := wire.Cmd{Kind: wire.Version, Opaque: 0x7777}
	burst := append(cl.Encode(c.Cmd), cl.Encode(sentinel)...)
	cl.C.Write(burst)
	rch := make(chan []byte, 1)
	go func() {
		if c.PKind != "returned-error" {
			b, _ := io.ReadAll(cl.R)
			rch <- b
			return
		}
		var b []byte
		buf := make([]byte, 4096)
		for {
			n, err := cl.R.Read(buf)
			b = append(b, buf[:n]...)
			if err != nil || containsSentinel(b, c.Binary) {
				rch <- b
				return
			}
		}
	}()
	var stream []byte
	select {
	case stream = <-rch:
	case <-time.After(hangBound()):
		noteHang()
		cl.C.Close()
		stream = <-rch
		return fmt.Sprintf("after a failure (%s) underneath %s the connection was neither closed nor the following request answered within the bound (the client would wait forever); bytes received: %q", c.PKind, c.Cmd, stream)
	}
	if c.PKind == "returned-error" {
		// an error (not a panic) underneath: the request must end in an error reply
		// followed by the sentinel's reply, or in EOF; either way within the bound,
		// and the key must not stay locked
		if !containsSentinel(stream, c.Binary) {
			select {
			case <-done:
			case <-time.After(hangBound()):
				noteHang()
				return fmt.Sprintf("after a backend error underneath %s the connection was neither answered nor closed", c.Cmd)
			}
		} else {
			cl.C.Close()
			<-done
		}
	} else {
		<-done
		if containsSentinel(stream, c.Binary) {
			return fmt.Sprintf("a panic underneath %s was swallowed: the following request was answered on the same connection (bytes received: %q)", c.Cmd, stream)
		}
		if !*closed1 || (c.Orca != "l1only" && !*closed2) {
			return fmt.Sprintf("after the panic the server did not close the connection's backend handlers (L1 closed=%v, L2 closed=%v)", *closed1, *closed2)
		}
	}
	// connection 2: the same key must not be locked
	cl2, _, _, done2 := serve("", 0)
	for _, k := range append([]string{c.Cmd.Key}, c.Cmd.Keys...) {
		if k == "" {
			continue
		}
		res := make(chan wire.Outcome, 1)
		go func() {
			o, _ := cl2.Do(wire.Cmd{Kind: wire.Set, Key: k, Value: []byte("after")})
			res <- o
		}()
		select {
		case o := <-res:
			if o.Class != wire.OK {
				return fmt.Sprintf("second connection: set %q answered %s", k, o)
			}
		case <-time.After(hangBound()):
			noteHang()
			return fmt.Sprintf("second connection: set %q did not complete within the bound: the key lock was not released after the panic", k)
		}
	}
	cl2.Close()
	<-done2
	return ""
}

func containsSentinel(stream []byte, binary bool) bool {
	if binary {
		// a version reply frame with opaque 0x7777
		for i := 0; i+24 <= len(stream); i++ {
			if stream[i] == 0x81 && stream[i+1] == 0x0b && stream[i+12] == 0 && stream[i+13] == 0 && stream[i+14] == 0x77 && stream[i+15] == 0x77 {
				return true
			}
		}
		return false
	}
	return len(stream) >= 8 && containsStr(string(stream), "VERSION ")
}

func containsStr(s, sub string) bool {
	for i := 0; i+len(sub) <= len(s); i++ {
		if s[i:i+len(sub)] == sub {
			return true
		}
	}
	return false
}

func TestC12FullPath(t *testing.T) {
	rec := evid.For("C12")
	shard, shards := evid.Shard()
	idx := 0
	for _, orca := range []string{"l1only", "l1l2", "batch"} {
		for _, multi := range []bool{false, true} {
			for _, binary := range []bool{true, false} {
				cmds := []wire.Cmd{
					{Kind: wire.Set, Key: "ka", Value: []byte("v")}, {Kind: wire.Add, Key: "kn", Value: []byte("v")}, {Kind: wire.Replace, Key: "ka", Value: []byte("v")},
					{Kind: wire.Append, Key: "ka", Value: []byte("v")}, {Kind: wire.Prepend, Key: "ka", Value: []byte("v")}, {Kind: wire.Delete, Key: "ka"},
					{Kind: wire.Touch, Key: "ka", Exptime: 10}, {Kind: wire.Get, Keys: []string{"ka"}}, {Kind: wire.Get, Keys: []string{"kn", "ka", "kb"}},
				}
				if binary {
					cmds = append(cmds, wire.Cmd{Kind: wire.Gat, Key: "ka", Exptime: 10}, wire.Cmd{Kind: wire.Get, Keys: []string{"ka", "kn"}, NoopEnd: true},
						wire.Cmd{Kind: wire.GetE, Keys: []string{"ka"}}, wire.Cmd{Kind: wire.GetE, Keys: []string{"kn", "ka"}, NoopEnd: true})
				}
				for _, cmd := range cmds {
					for _, preset := range []bool{true, false} {
						idx++
						if idx%shards != shard {
							continue
						}
						for _, tier := range []string{"L1", "L2"} {
							if tier == "L2" && orca == "l1only" {
								continue
							}
							dry := c12Full{Kind: "full", Orca: orca, Multi: multi, Binary: binary, Cmd: cmd, Preset: preset}
							var n1, n2 int
							fmt.Sscanf(runC12Full(dry), "COUNT %d %d", &n1, &n2)
							n := n1
							if tier == "L2" {
								n = n2
							}
							for at := 1; at <= n; at++ {
								for _, pk := range []string{"string", "error", "eof", "runtime", "returned-error"} {
									c := c12Full{Kind: "full", Orca: orca, Multi: multi, Binary: binary, Cmd: cmd, Tier: tier, At: at, Preset: preset, PKind: pk}
									if binary {
										c.Cmd.Opaque = 0x100
									}
									msg := runC12Full(c)
									rec.Case(true, fmt.Sprintf("full|%s|%v|%v|%s|%v|%s|%d|%s", orca, multi, binary, cmd, preset, tier, at, pk), "full-path-panic", "panic-value:"+pk)
									if msg != "" {
										rp := rec.Violation("TestC12Replay", c)
										t.Errorf("C12 full path orca=%s multi=%v binary=%v preset=%v: panic (%s value) at %s call %d under %s: %s; replay %s", orca, multi, binary, preset, pk, tier, at, cmd, msg, rp)
										return
									}
								}
							}
						}
					}
				}
			}
		}
	}
}
