package props

import (
	"fmt"
	"net"
	"os"
	"os/exec"
	"strconv"
	"strings"
	"testing"
	"time"

	"verifharness/evid"
	"verifharness/fakemc"
	"verifharness/wire"
)

func freeTCPPort() int {
	l, err := net.Listen("tcp", "127.0.0.1:0")
	if err != nil {
		panic(err)
	}
	defer l.Close()
	return l.Addr().(*net.TCPAddr).Port
}

// startClusterProxy runs the real cluster proxy binary (app/memcached_cluster_proxy.go)
// in "GET L1 mode" in front of the listed nodes.
func startClusterProxy(t *testing.T, bin string, nodes []string) (addr string, stop func()) {
	p, ap := freeTCPPort(), freeTCPPort()
	cmd := exec.Command(bin, "-p", strconv.Itoa(p), "-admin-port", strconv.Itoa(ap),
		"-source-hostnames", strings.Join(nodes, ","), "-destination-cluster-type", "noop", "-destination-hostnames", "unused")
	if err := cmd.Start(); err != nil {
		t.Fatalf("harness: cannot start %s: %v", bin, err)
	}
	addr = fmt.Sprintf("127.0.0.1:%d", p)
	deadline := time.Now().Add(20 * time.Second)
	for {
		c, err := net.DialTimeout("tcp", addr, time.Second)
		if err == nil {
			c.Close()
			break
		}
		if time.Now().After(deadline) {
			cmd.Process.Kill()
			cmd.Wait()
			t.Skipf("harness: cluster proxy did not start listening on %s: %v", addr, err)
		}
		time.Sleep(20 * time.Millisecond)
	}
	return addr, func() { cmd.Process.Kill(); cmd.Wait() }
}

// TestC19ClusterProxy drives the real cluster proxy binary: the node a key is
// stored on must not depend on the order of -source-hostnames nor on the client
// connection that asks.
func TestC19ClusterProxy(t *testing.T) {
	bin := os.Getenv("VERIF_CLUSTERPROXY")
	if bin == "" {
		t.Skip("VERIF_CLUSTERPROXY not set")
	}
	rec := evid.For("C19")
	fakes, addrs, point := collidingLoopbackFakes(t)
	var keys []string
	for i := 0; i < 400; i++ {
		keys = append(keys, fmt.Sprintf("proxy-%d", i))
	}
	owner := map[string]int{} // key -> index of the fake that held it in the first run
	orders := [][]int{{0, 1, 2}, {2, 1, 0}, {1, 2, 0}, {1, 0, 2}}
	for oi, ord := range orders {
		for _, f := range fakes {
			f.Reset()
		}
		addr, stop := startClusterProxy(t, bin, permuted(addrs, ord))
		dial := func() *wire.Client {
			c, err := net.Dial("tcp", addr)
			if err != nil {
				stop()
				t.Fatalf("harness: dial proxy: %v", err)
			}
			cl := wire.NewClient(c, true)
			cl.Timeout = hangBound()
			return cl
		}
		writer, reader := dial(), dial()
		for _, k := range keys {
			out, err := writer.Do(wire.Cmd{Kind: wire.Set, Key: k, Value: []byte("v-" + k), Flags: 9})
			if err != nil || out.Class != wire.OK {
				stop()
				t.Fatalf("harness: set %q through the proxy: %v %s", k, err, out.String())
			}
		}
		// a later connection, and the first one, both find every key
		late := dial()
		for ci, cl := range []*wire.Client{reader, late, writer} {
			for _, k := range keys {
				out, err := cl.Do(wire.Cmd{Kind: wire.Get, Keys: []string{k}})
				if err != nil || len(out.Hits) != 1 || string(out.Hits[0].Value) != "v-"+k || out.Hits[0].Flags != 9 {
					p := rec.Violation("TestC19ClusterProxy", map[string]interface{}{"nodes": permuted(addrs, ord), "key": k, "reading_connection": ci})
					stop()
					t.Fatalf("C19 cluster proxy (nodes %v): key %q stored through one connection is not found through connection %d: %v %s; replay %s", permuted(addrs, ord), k, ci, err, out.String(), p)
				}
			}
		}
		// which node holds which key: equal for every listing order
		shares := make([]int, len(fakes))
		lives := make([]map[string]fakemc.Entry, len(fakes))
		for fi, f := range fakes {
			lives[fi] = f.Live()
		}
		for _, k := range keys {
			at := -1
			for fi := range fakes {
				if _, ok := lives[fi][k]; ok {
					if at >= 0 {
						p := rec.Violation("TestC19ClusterProxy", map[string]interface{}{"nodes": permuted(addrs, ord), "key": k})
						stop()
						t.Fatalf("C19 cluster proxy: key %q is held by two nodes (%s and %s); replay %s", k, addrs[at], addrs[fi], p)
					}
					at = fi
				}
			}
			if at < 0 {
				stop()
				t.Fatalf("C19 cluster proxy: key %q is on no node after a successful set", k)
			}
			shares[at]++
			if prev, ok := owner[k]; ok && prev != at {
				p := rec.Violation("TestC19ClusterProxy", map[string]interface{}{"nodes_first": addrs, "nodes_now": permuted(addrs, ord), "key": k})
				stop()
				t.Fatalf("C19 cluster proxy: key %q went to node %s when the nodes were listed as %v and to node %s when listed as %v; replay %s", k, addrs[prev], addrs, addrs[at], permuted(addrs, ord), p)
			}
			owner[k] = at
		}
		for fi, n := range shares {
			if n == 0 {
				stop()
				t.Fatalf("C19 cluster proxy: node %s received none of %d keys (shares %v)", addrs[fi], len(keys), shares)
			}
		}
		// a client that connects while a node cannot be reached: no service (what the
		// code does) or the same routing, never a different node for a stored key
		down := oi % len(fakes)
		fakes[down].StopListening()
		cl := dial()
		cl.Timeout = 3 * time.Second
		served := 0
		for _, k := range keys[:60] {
			out, err := cl.Do(wire.Cmd{Kind: wire.Get, Keys: []string{k}})
			if err != nil || out.Class == wire.Closed {
				break // the connection is refused service: fine
			}
			if out.Class == wire.OK && len(out.Hits) == 0 && len(out.Problems) == 0 {
				p := rec.Violation("TestC19ClusterProxy", map[string]interface{}{"nodes": permuted(addrs, ord), "unreachable_at_connect": addrs[down], "key": k})
				stop()
				t.Fatalf("C19 cluster proxy: a connection opened while node %s refused connections answers 'not found' for key %q, which is stored (on node %s): it looked on another node; replay %s", addrs[down], k, addrs[owner[k]], p)
			}
			served++
		}
		cl.Close()
		if _, err := fakes[down].ListenTCP(addrs[down]); err != nil {
			stop()
			t.Fatalf("harness: cannot listen on %s again: %v", addrs[down], err)
		}
		writer.Close()
		reader.Close()
		late.Close()
		stop()
		cls := "cluster-proxy-binary"
		if served > 0 {
			cls = "cluster-proxy-binary:served-with-a-node-down"
		}
		rec.Case(oi > 0, fmt.Sprintf("proxy|%v", ord), cls)
	}
	rec.Sample(true, map[string]interface{}{"cluster_proxy_nodes": addrs, "shared_ring_point": point, "keys": len(keys), "listing_orders": len(orders)})
}
