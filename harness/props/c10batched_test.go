package props

import (
	"fmt"
	"runtime"
	"testing"

	"verifharness/evid"
	"verifharness/fakemc"
	"verifharness/stack"
	"verifharness/wire"
)

type c10BatchedCase struct {
	Config  string   `json:"config"`
	Binary  bool     `json:"binary"`
	Program []string `json:"program"`
	Status  uint16   `json:"status"`
	Times   int      `json:"times"` // how many requests naming the faulted key are refused (0 = all)
}

// TestC10Batched: the batching handler as L1, where backend connections are
// pooled and a fault cannot be aimed at "the client's connection": requests
// naming the key "kf" are answered with an error status, the first one, the
// first two, or all of them.  Programs: multi-key gets with the refused key
// first, in the middle and last, single gets, every mutating command on the
// refused key.  Clauses (a) and (b) of C10: every command of the program is
// answered (well-formed reply or error reply) or the connection closed within
// the bound; any value returned is the stored one; afterwards the connection
// is in step, a bystander connection that was open all along is served, and so
// is a fresh one.
func TestC10Batched(t *testing.T) {
	rec := evid.For("C10")
	shard, shards := evid.Shard()
	cfgs := []stack.Config{
		{Shape: "l1only", Lock: "nolock", L1: "batched", L2: "-"},
		{Shape: "l1l2", Lock: "nolock", L1: "batched", L2: "std"},
		{Shape: "l1only", Lock: "lockNr", L1: "batched", L2: "-", Conc: 3},
	}
	va, vb, vf := c10Value("ka", false), c10Value("kb", false), c10Value("kf", false)
	stored := map[string]string{"ka": string(va), "kb": string(vb), "kf": string(vf)}
	type prog struct {
		name string
		cmds []wire.Cmd
	}
	progs := func(binary bool) []prog {
		out := []prog{
			{"get kf,ka", []wire.Cmd{{Kind: wire.Get, Keys: []string{"kf", "ka"}}}},
			{"get ka,kf", []wire.Cmd{{Kind: wire.Get, Keys: []string{"ka", "kf"}}}},
			{"get ka,kf,kb", []wire.Cmd{{Kind: wire.Get, Keys: []string{"ka", "kf", "kb"}}}},
			{"get kf,ka,kb then get kb", []wire.Cmd{{Kind: wire.Get, Keys: []string{"kf", "ka", "kb"}}, {Kind: wire.Get, Keys: []string{"kb"}}}},
			{"get kf", []wire.Cmd{{Kind: wire.Get, Keys: []string{"kf"}}}},
			{"set kf", []wire.Cmd{{Kind: wire.Set, Key: "kf", Value: vf, Flags: 3}}},
			{"append kf then get ka", []wire.Cmd{{Kind: wire.Append, Key: "kf", Value: []byte("+")}, {Kind: wire.Get, Keys: []string{"ka"}}}},
			{"delete kf", []wire.Cmd{{Kind: wire.Delete, Key: "kf"}}},
			{"touch kf", []wire.Cmd{{Kind: wire.Touch, Key: "kf", Exptime: 5000}}},
		}
		if binary {
			out = append(out,
				prog{"get kf,ka noop-closed", []wire.Cmd{{Kind: wire.Get, Keys: []string{"kf", "ka"}, NoopEnd: true}}},
				prog{"gat kf", []wire.Cmd{{Kind: wire.Gat, Key: "kf", Exptime: 5000}}},
			)
		}
		return out
	}
	statuses := []uint16{0x82, 0x84, 0x85, 0x86, 0x03}
	idx := 0
	for _, cfg := range cfgs {
		for _, binary := range []bool{true, false} {
			for _, p := range progs(binary) {
				for _, times := range []int{1, 2, 0} {
					idx++
					if idx%shards != shard {
						continue
					}
					status := statuses[idx%len(statuses)]
					if !thorough() && times == 2 && idx%2 == 0 {
						continue
					}
					st := stack.Get(cfg)
					st.Reset()
					c := c10BatchedCase{Config: cfg.String(), Binary: binary, Program: cmdsString(p.cmds), Status: status, Times: times}
					fail := func(format string, a ...interface{}) {
						rp := rec.Violation("TestC10Batched", c)
						t.Errorf("C10 %s bin=%v program [%s], requests naming kf answered status %#x (%d times, 0 = always): %s; replay %s", cfg, binary, p.name, status, times, fmt.Sprintf(format, a...), rp)
					}
					setup := wire.NewClient(st.Dial(0), true)
					for k, v := range stored {
						setup.Do(wire.Cmd{Kind: wire.Set, Key: k, Value: []byte(v), Flags: 3})
					}
					setup.Close()
					by := wire.NewClient(st.Dial(0), binary)
					by.Timeout = hangBound()
					if o, err := by.Do(wire.Cmd{Kind: wire.Get, Keys: []string{"kb"}}); err != nil || len(o.Hits) != 1 {
						by.Close()
						fail("bystander get before the fault: %v %s", err, o)
						continue
					}
					cl := wire.NewClient(st.Dial(0), binary)
					cl.Timeout = hangBound()
					n := 0
					st.L1.Arm(&fakemc.Fault{Kind: fakemc.FaultStatus, Status: status, Repeat: true, Match: func(r *fakemc.Req) bool {
						if r.Key != "kf" {
							return false
						}
						n++
						return times == 0 || n <= times
					}})
					bad := ""
					closed := false
					for i, cmd := range p.cmds {
						o, err := cl.Do(cmd)
						if err != nil {
							var dump [1 << 16]byte
							m := runtime.Stack(dump[:], true)
							noteHang()
							bad = fmt.Sprintf("command %d (%s) was not answered and the connection not closed within %v; goroutines:\n%s", i, cmd, cl.Timeout, dump[:m])
							break
						}
						if len(o.Problems) > 0 {
							bad = fmt.Sprintf("command %d (%s): malformed or unattributable reply: %v (trace %v)", i, cmd, o.Problems, o.Trace)
							break
						}
						for _, h := range o.Hits {
							if string(h.Value) != stored[h.Key] && string(h.Value) != stored[h.Key]+"+" {
								bad = fmt.Sprintf("command %d (%s) returned for key %q the value %s, which was never stored", i, cmd, h.Key, short(h.Value))
							}
						}
						if cmd.Kind == wire.Get && o.Class == wire.OK {
							seen := map[string]int{}
							for _, h := range o.Hits {
								seen[h.Key]++
							}
							for k, c := range seen {
								if c > 1 {
									bad = fmt.Sprintf("command %d (%s): %d values for key %q", i, cmd, c, k)
								}
							}
						}
						if o.Class == wire.Closed {
							closed = true
							break
						}
					}
					fired := st.L1.FaultsFired()
					st.L1.Disarm()
					if bad == "" && !closed {
						if o, err := cl.Do(wire.Cmd{Kind: wire.Version}); err != nil {
							noteHang()
							bad = fmt.Sprintf("after the program the connection is open but a version request is not answered within %v", cl.Timeout)
						} else if o.Class != wire.Closed && (o.Class != wire.OK || len(o.Problems) > 0) {
							bad = fmt.Sprintf("after the program the connection is out of step: a version request is answered with %s", o)
						}
					}
					cl.Close()
					if bad == "" {
						if o, err := by.Do(wire.Cmd{Kind: wire.Get, Keys: []string{"kb"}}); err != nil || len(o.Hits) != 1 || string(o.Hits[0].Value) != string(vb) {
							if err == wire.ErrTimeout {
								noteHang()
							}
							bad = fmt.Sprintf("the bystander connection (open since before the fault, key kb) is not served afterwards: %v %s", err, o)
						}
					}
					by.Close()
					if bad == "" {
						fc := wire.NewClient(st.Dial(0), true)
						fc.Timeout = hangBound()
						v := c10Value(fmt.Sprintf("fresh%d", idx), false)
						o1, e1 := fc.Do(wire.Cmd{Kind: wire.Set, Key: "kf", Value: v, Flags: 4})
						o2, e2 := fc.Do(wire.Cmd{Kind: wire.Get, Keys: []string{"kf", "ka"}})
						fc.Close()
						if e1 != nil || e2 != nil || o1.Class != wire.OK || len(o2.Hits) != 2 {
							if e1 == wire.ErrTimeout || e2 == wire.ErrTimeout {
								noteHang()
							}
							bad = fmt.Sprintf("a fresh connection after the fault was lifted: set kf %v %s / get kf,ka %v %s", e1, o1, e2, o2)
						}
					}
					rec.Case(fired > 0, fmt.Sprintf("batched|%+v", c), "batched-l1-status-faults")
					if bad != "" {
						fail("%s", bad)
						if len(rec.Violations) > 4 {
							return
						}
					} else if fired > 0 && rec.WantSample(true) {
						rec.Sample(true, map[string]interface{}{"config": cfg.String(), "binary": binary, "program": p.name, "status": status, "requests_refused": fired})
					}
				}
			}
		}
	}
}
