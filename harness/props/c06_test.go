package props

import (
	"bytes"
	"fmt"
	"runtime"
	"sort"
	"strings"
	"sync"
	"testing"
	"time"

	"github.com/netflix/rend/common"
	"github.com/netflix/rend/handlers"
	"github.com/netflix/rend/handlers/memcached/batched"
	"github.com/netflix/rend/handlers/memcached/std"
	"pgregory.net/rapid"

	"verifharness/bufpipe"
	"verifharness/evid"
	"verifharness/fakemc"
	"verifharness/refmodel"
	"verifharness/stack"
	"verifharness/wire"
)

type batchCfg struct {
	Size, Delay uint32
	Pool        int
	Buf         uint32 // read and write buffer size of the pooled connections (0 = default 64 KiB)
}

type batchEnv struct {
	cfg  batchCfg
	fake *fakemc.Server
	sock string
	opts batched.Opts
}

var (
	batchMu   sync.Mutex
	batchEnvs = map[batchCfg]*batchEnv{}
)

// batchEnvFor returns the (process-wide) fake + relay for a pool
// configuration; relays are global per socket path and never torn down.
func batchEnvFor(cfg batchCfg) *batchEnv {
	batchMu.Lock()
	defer batchMu.Unlock()
	if e, ok := batchEnvs[cfg]; ok {
		return e
	}
	f, sock := stack.NewFake("batched_")
	e := &batchEnv{cfg: cfg, fake: f, sock: sock, opts: batched.Opts{BatchSize: cfg.Size, BatchDelayMicros: cfg.Delay, EvaluationIntervalSec: 3600, ReadBufSize: cfg.Buf, WriteBufSize: cfg.Buf}}
	_ = batched.NewHandler(sock, e.opts) // creates the relay with one connection
	if cfg.Pool > 1 {
		batched.VerifAddConns(sock, cfg.Pool-1)
	}
	if got := batched.VerifPoolSize(sock); got != cfg.Pool {
		panic(fmt.Sprintf("pool size %d, want %d", got, cfg.Pool))
	}
	batchEnvs[cfg] = e
	return e
}

func (e *batchEnv) handler() handlers.Handler { return batched.NewHandler(e.sock, e.opts) }

func genBatchCfg(t *rapid.T) batchCfg {
	return batchCfg{
		Size:  rapid.SampledFrom([]uint32{1, 2, 5, 10, 64}).Draw(t, "batchSize"),
		Delay: rapid.SampledFrom([]uint32{1, 50, 250, 2000}).Draw(t, "batchDelayMicros"),
		Pool:  rapid.SampledFrom([]int{1, 2, 4}).Draw(t, "pool"),
		Buf:   rapid.SampledFrom([]uint32{0, 0, 512, 4096}).Draw(t, "connBufSize"),
	}
}

// getResp is one response of a (multi-)get with everything it echoes.
type getResp struct {
	Key    string
	Opaque uint32
	Quiet  bool
	Miss   bool
	Data   []byte
	Flags  uint32
	Exp    uint32
}

func (g getResp) String() string {
	return fmt.Sprintf("{%q opq=%d quiet=%v miss=%v data=%s flags=%d exp=%d}", g.Key, g.Opaque, g.Quiet, g.Miss, short(g.Data), g.Flags, g.Exp)
}

// execGetFull runs Get or GetE with explicit opaques and quiet flags.
func execGetFull(h handlers.Handler, keys []string, opaques []uint32, quiets []bool, gete bool) ([]getResp, error) {
	req := common.GetRequest{Opaques: opaques, Quiet: quiets}
	for _, k := range keys {
		req.Keys = append(req.Keys, []byte(k))
	}
	var out []getResp
	var err error
	if gete {
		rc, ec := h.GetE(req)
		for rc != nil || ec != nil {
			select {
			case r, ok := <-rc:
				if !ok {
					rc = nil
					continue
				}
				out = append(out, getResp{string(r.Key), r.Opaque, r.Quiet, r.Miss, r.Data, r.Flags, r.Exptime})
			case e, ok := <-ec:
				if !ok {
					ec = nil
					continue
				}
				err = e
			}
		}
		return out, err
	}
	rc, ec := h.Get(req)
	for rc != nil || ec != nil {
		select {
		case r, ok := <-rc:
			if !ok {
				rc = nil
				continue
			}
			out = append(out, getResp{string(r.Key), r.Opaque, r.Quiet, r.Miss, r.Data, r.Flags, 0})
		case e, ok := <-ec:
			if !ok {
				ec = nil
				continue
			}
			err = e
		}
	}
	return out, err
}

func sortResps(rs []getResp) {
	sort.Slice(rs, func(i, j int) bool {
		if rs[i].Opaque != rs[j].Opaque {
			return rs[i].Opaque < rs[j].Opaque
		}
		return rs[i].Key < rs[j].Key
	})
}

func expClose(a, b uint32) bool {
	d := int64(a) - int64(b)
	return d >= -3 && d <= 3
}

func TestC06Sequential(t *testing.T) {
	rec := evid.For("C06")
	rapid.Check(t, func(t *rapid.T) {
		cfg := genBatchCfg(t)
		env := batchEnvFor(cfg)
		env.fake.Reset()
		hb := env.handler()
		twin := fakemc.New()
		a, b := bufpipe.Pair()
		twin.ServeConn(b)
		hs := std.NewHandler(a)
		defer hs.Close()
		model := refmodel.New()
		n := rapid.IntRange(1, 25).Draw(t, "steps")
		var descr []string
		nt := false
		fail := func(i int, msg string) {
			t.Fatalf("C06 %+v step %d: %s\nsequence: %s", cfg, i, msg, strings.Join(descr, " | "))
		}
		for i := 0; i < n; i++ {
			now := nowUnix()
			kind := rapid.SampledFrom([]wire.Kind{wire.Set, wire.Add, wire.Replace, wire.Append, wire.Prepend, wire.Delete, wire.Touch, wire.Gat, wire.Get, wire.Get, wire.GetE}).Draw(t, "kind")
			if kind == wire.Get || kind == wire.GetE {
				nk := rapid.IntRange(1, 5).Draw(t, "nkeys")
				var keys []string
				var opaques []uint32
				var quiets []bool
				dup, mixed := false, false
				for j := 0; j < nk; j++ {
					k := rapid.SampledFrom(smallKeys).Draw(t, "gkey")
					for _, p := range keys {
						if p == k {
							dup = true
						}
					}
					keys = append(keys, k)
					opaques = append(opaques, uint32(1000+j))
					quiets = append(quiets, rapid.Bool().Draw(t, "gquiet"))
					if j > 0 && quiets[j] != quiets[0] {
						mixed = true
					}
				}
				if dup || mixed {
					nt = true
				}
				descr = append(descr, fmt.Sprintf("%s %v quiet=%v", kind, keys, quiets))
				gb, eb := execGetFull(hb, keys, opaques, quiets, kind == wire.GetE)
				gs, es := execGetFull(hs, keys, opaques, quiets, kind == wire.GetE)
				if (eb == nil) != (es == nil) {
					fail(i, fmt.Sprintf("batched error %v, direct error %v", eb, es))
				}
				if len(gb) != len(keys) {
					fail(i, fmt.Sprintf("batched returned %d responses for %d requested keys: %v", len(gb), len(keys), gb))
				}
				sortResps(gb)
				sortResps(gs)
				for j := range gs {
					x, y := gb[j], gs[j]
					if x.Key != y.Key || x.Opaque != y.Opaque || x.Quiet != y.Quiet || x.Miss != y.Miss || !bytes.Equal(x.Data, y.Data) || x.Flags != y.Flags || !expClose(x.Exp, y.Exp) {
						fail(i, fmt.Sprintf("response %d differs: batched %s, direct %s", j, x, y))
					}
					// and against the model
					it := model.Live(x.Key, now)
					if (it == nil) != x.Miss || (it != nil && (!bytes.Equal(it.Value, x.Data) || it.Flags != x.Flags)) {
						fail(i, fmt.Sprintf("response %d %s disagrees with the reference map", j, x))
					}
					if it != nil && kind == wire.GetE {
						want := uint32(0)
						if it.Deadline != 0 {
							want = uint32(it.Deadline - now)
						}
						if !expClose(x.Exp, want) {
							fail(i, fmt.Sprintf("gete response %s: remaining TTL %d, reference map says %d", x, x.Exp, want))
						}
					}
				}
				continue
			}
			c := wire.Cmd{Kind: kind, Key: rapid.SampledFrom(smallKeys).Draw(t, "key")}
			// the quiet flag and the opaque of a request are the responder's business:
			// a handler must give the same outcome, at the same moment, with and without
			c.Quiet = rapid.IntRange(0, 3).Draw(t, "quietFlag") == 0
			c.Opaque = rapid.Uint32Range(0, 9).Draw(t, "opaque")
			switch kind {
			case wire.Set, wire.Add, wire.Replace:
				c.Value, c.Flags = genValue(t, "val"), genFlags(t, "flags")
				if rapid.IntRange(0, 7).Draw(t, "huge") == 0 {
					// larger than the pooled connection's read buffer
					c.Value = mkValue(rapid.Uint32Range(0, 99).Draw(t, "hugeSeed"), rapid.SampledFrom([]int{65000, 66000, 70000, 200000}).Draw(t, "hugeLen"))
				}
				if rapid.IntRange(0, 7).Draw(t, "fillsBuffer") == 0 {
					// a request that fills the pooled connection's write buffer exactly (or misses
					// by one byte, or fills it twice): header 24 + extras 8 + key + value
					buf := int(cfg.Buf)
					if buf == 0 {
						buf = 65536
					}
					n := rapid.SampledFrom([]int{buf - 1, buf, buf, buf + 1, 2 * buf}).Draw(t, "requestBytes") - 32 - len(c.Key)
					c.Value = mkValue(rapid.Uint32Range(0, 99).Draw(t, "fillSeed"), n)
				}
				c.Exptime = ttlOf(rapid.SampledFrom([]int{0, 1, 2, 5}).Draw(t, "ttl"), now)
			case wire.Append, wire.Prepend:
				c.Value = genValue(t, "val")
			case wire.Touch, wire.Gat:
				c.Exptime = ttlOf(rapid.SampledFrom([]int{0, 1, 2, 5}).Draw(t, "ttl"), now)
			}
			descr = append(descr, c.String())
			exp := model.Apply(c, now)
			if exp.Class == refmodel.Fail {
				nt = true
			}
			rb, _ := execHandler(hb, c, 0)
			rs, _ := execHandler(hs, c, 0)
			if rb.Class != rs.Class || (rb.Err != rs.Err) {
				fail(i, fmt.Sprintf("%s: batched result %s (err %v), direct connection %s (err %v)", c, rb.Class, rb.Err, rs.Class, rs.Err))
			}
			if msg := compareH(c, exp, rb); msg != "" {
				fail(i, fmt.Sprintf("%s through the pool: %s", c, msg))
			}
			if kind == wire.Gat && rb.Err == nil && rb.Hits[0] != nil && rb.Hits[0].Key != c.Key {
				fail(i, fmt.Sprintf("%s: response echoes key %q", c, rb.Hits[0].Key))
			}
			// identical backend contents
			lb, ls := env.fake.Live(), twin.Live()
			if len(lb) != len(ls) {
				fail(i, fmt.Sprintf("%s: backend behind the pool holds %d live entries, the direct one %d", c, len(lb), len(ls)))
			}
			for k, e := range ls {
				o, ok := lb[k]
				if !ok || !bytes.Equal(o.Value, e.Value) || o.Flags != e.Flags || o.RawExp != e.RawExp {
					fail(i, fmt.Sprintf("%s: backend entry %q behind the pool = %v (%s, flags %d, exptime %d), direct = (%s, flags %d, exptime %d)", c, k, ok, short(o.Value), o.Flags, o.RawExp, short(e.Value), e.Flags, e.RawExp))
				}
			}
		}
		if bad := env.fake.Bad(); len(bad) > 0 {
			fail(n, "malformed backend request: "+bad[0])
		}
		rec.Case(nt, fmt.Sprintf("%+v|%v", cfg, descr), fmt.Sprintf("pool=%d", cfg.Pool), fmt.Sprintf("batchsize=%d", cfg.Size))
		if rec.WantSample(nt) {
			rec.Sample(nt, map[string]interface{}{"pool_config": fmt.Sprintf("%+v", cfg), "commands": descr})
		}
	})
}

// TestC06Concurrent: many callers with private keys share the pool.
func TestC06Concurrent(t *testing.T) {
	rec := evid.For("C06")
	rapid.Check(t, func(t *rapid.T) {
		cfg := genBatchCfg(t)
		env := batchEnvFor(cfg)
		env.fake.Reset()
		callers := rapid.SampledFrom([]int{1, 2, 3, 8, 16, 64}).Draw(t, "callers")
		steps := rapid.IntRange(3, 12).Draw(t, "steps")
		// one case in eight moves values larger than a socket buffer in both directions
		huge := rapid.IntRange(0, 7).Draw(t, "huge") == 0
		if huge {
			callers = rapid.SampledFrom([]int{2, 3, 4}).Draw(t, "hugeCallers")
			steps = rapid.IntRange(3, 6).Draw(t, "hugeSteps")
		}
		type step struct {
			c wire.Cmd
		}
		plans := make([][]wire.Cmd, callers)
		for ci := range plans {
			keys := []string{fmt.Sprintf("c%d-a", ci), fmt.Sprintf("c%d-b", ci)}
			for s := 0; s < steps; s++ {
				kind := rapid.SampledFrom([]wire.Kind{wire.Set, wire.Set, wire.Add, wire.Replace, wire.Append, wire.Delete, wire.Touch, wire.Gat, wire.Get, wire.Get}).Draw(t, "kind")
				c := wire.Cmd{Kind: kind}
				switch kind {
				case wire.Get:
					for j := rapid.IntRange(1, 3).Draw(t, "nkeys"); j > 0; j-- {
						c.Keys = append(c.Keys, rapid.SampledFrom(keys).Draw(t, "gkey"))
					}
				default:
					c.Key = rapid.SampledFrom(keys).Draw(t, "key")
				}
				switch kind {
				case wire.Set, wire.Add, wire.Replace, wire.Append:
					// self-identifying value: caller id and step embedded
					c.Quiet = rapid.IntRange(0, 3).Draw(t, "quietFlag") == 0
					pads := []int{0, 10, 2000, 8192, 8192}
					if huge {
						pads = []int{300000, 1 << 20, 10}
					}
					c.Value = []byte(fmt.Sprintf("<caller %d step %d %s>", ci, s, strings.Repeat("x", rapid.SampledFrom(pads).Draw(t, "pad"))))
					c.Flags = uint32(ci*1000 + s)
				}
				plans[ci] = append(plans[ci], c)
			}
		}
		var wg sync.WaitGroup
		problems := make([]string, callers)
		start := make(chan struct{})
		for ci := range plans {
			wg.Add(1)
			go func(ci int) {
				defer wg.Done()
				h := env.handler()
				model := refmodel.New()
				<-start
				for s, c := range plans[ci] {
					exp := model.Apply(c, nowUnix())
					got, _ := execHandler(h, c, 0)
					if msg := compareH(c, exp, got); msg != "" {
						problems[ci] = fmt.Sprintf("caller %d step %d %s: %s", ci, s, c, msg)
						return
					}
				}
			}(ci)
		}
		close(start)
		allDone := make(chan struct{})
		go func() { wg.Wait(); close(allDone) }()
		select {
		case <-allDone:
		case <-time.After(hangBound() + 60*time.Second):
			noteHang()
			var dump [1 << 16]byte
			n := runtime.Stack(dump[:], true)
			hp := rec.History("TestC06Concurrent", map[string]interface{}{"pool_config": fmt.Sprintf("%+v", cfg), "callers": callers, "problem": "callers never returned", "caller0": cmdsString(plans[0])})
			t.Fatalf("C06 concurrent %+v, %d callers x %d steps (huge values: %v): some calls through the pool never returned (no faults were injected); saved: %s; goroutines:\n%s", cfg, callers, steps, huge, hp, dump[:n])
		}
		for _, p := range problems {
			if p != "" {
				hp := rec.History("TestC06Concurrent", map[string]interface{}{"pool_config": fmt.Sprintf("%+v", cfg), "callers": callers, "problem": p})
				t.Fatalf("C06 concurrent %+v, %d callers x %d steps: %s (saved: %s)", cfg, callers, steps, p, hp)
			}
		}
		// non-triviality: a batch window on one connection carried requests of >= 2 callers
		shared := false
		byConn := map[int][]fakemc.Req{}
		for _, r := range env.fake.Log() {
			byConn[r.Conn] = append(byConn[r.Conn], r)
		}
		for _, rs := range byConn {
			owners := map[string]bool{}
			for _, r := range rs {
				owners[strings.SplitN(r.Key, "-", 2)[0]] = true
				if r.Buffered == 0 {
					if len(owners) >= 2 {
						shared = true
					}
					owners = map[string]bool{}
				}
			}
		}
		cls := []string{fmt.Sprintf("callers=%d", callers)}
		if huge {
			cls = append(cls, "values-larger-than-a-socket-buffer")
		}
		rec.Case(shared, fmt.Sprintf("conc|%+v|%d|%x", cfg, callers, evid.Hash(fmt.Sprint(plans))), cls...)
		if rec.WantSample(shared) {
			rec.Sample(shared, map[string]interface{}{"pool_config": fmt.Sprintf("%+v", cfg), "callers": callers, "steps_per_caller": steps, "caller0": cmdsString(plans[0])})
		}
	})
}
