package props

import (
	"bytes"
	"fmt"
	"os"
	"strings"
	"sync"
	"sync/atomic"
	"testing"
	"time"

	"github.com/anishathalye/porcupine"
	"github.com/netflix/rend/common"
	"github.com/netflix/rend/orcas"
	"pgregory.net/rapid"

	"verifharness/evid"
	"verifharness/fakemc"
	"verifharness/stack"
	"verifharness/wire"
)

// ---------- programs run under the scheduler ----------

type sCmd struct {
	Kind  wire.Kind `json:"kind"`
	Keys  []string  `json:"keys"`
	Batch bool      `json:"batch"` // issued on the batch port's orchestrator
}

func (c sCmd) String() string {
	p := ""
	if c.Batch {
		p = "@batch"
	}
	return fmt.Sprintf("%s %s%s", c.Kind, strings.Join(c.Keys, ","), p)
}

type sProgram struct {
	Orca    string   `json:"orca,omitempty"` // "" = L1L2 main + L1L2Batch batch; "l1only" = L1Only on both
	Multi   bool     `json:"multiReader"`
	Conc    uint8    `json:"concurrency"`
	Preset  []string `json:"preset"` // keys present (in L1 and L2) at the start
	L2Only  []string `json:"l2only"` // keys present only in L2
	Threads [][]sCmd `json:"threads"`
}

func (p sProgram) String() string {
	var ts []string
	for i, t := range p.Threads {
		var cs []string
		for _, c := range t {
			cs = append(cs, c.String())
		}
		ts = append(ts, fmt.Sprintf("T%d[%s]", i, strings.Join(cs, "; ")))
	}
	return fmt.Sprintf("orca=%q multi=%v conc=%d preset=%v l2only=%v %s", p.Orca, p.Multi, p.Conc, p.Preset, p.L2Only, strings.Join(ts, " "))
}

// history entry for porcupine
type kvIn struct {
	Kind  wire.Kind
	Key   string
	Value string
	Flags uint32
}
type kvOut struct {
	Class string // ok | fail | error
	Hit   bool
	Value string
	Flags uint32
}
type kvState struct {
	Present bool
	Value   string
	Flags   uint32
}

var kvModel = porcupine.Model{
	Partition: func(history []porcupine.Operation) [][]porcupine.Operation {
		m := map[string][]porcupine.Operation{}
		var keys []string
		for _, op := range history {
			k := op.Input.(kvIn).Key
			if _, ok := m[k]; !ok {
				keys = append(keys, k)
			}
			m[k] = append(m[k], op)
		}
		var out [][]porcupine.Operation
		for _, k := range keys {
			out = append(out, m[k])
		}
		return out
	},
	Init: func() interface{} { return kvState{} },
	Step: func(state, input, output interface{}) (bool, interface{}) {
		s, in, out := state.(kvState), input.(kvIn), output.(kvOut)
		if out.Class == "error" {
			return false, s // no errors are injected in C03
		}
		switch in.Kind {
		case wire.Get, wire.Gat:
			if s.Present {
				return out.Hit && out.Value == s.Value && out.Flags == s.Flags, s
			}
			return !out.Hit, s
		case wire.Set:
			return out.Class == "ok", kvState{true, in.Value, in.Flags}
		case wire.Add:
			if s.Present {
				return out.Class == "fail", s
			}
			return out.Class == "ok", kvState{true, in.Value, in.Flags}
		case wire.Replace:
			if !s.Present {
				return out.Class == "fail", s
			}
			return out.Class == "ok", kvState{true, in.Value, in.Flags}
		case wire.Append:
			if !s.Present {
				return out.Class == "fail", s
			}
			return out.Class == "ok", kvState{true, s.Value + in.Value, s.Flags}
		case wire.Prepend:
			if !s.Present {
				return out.Class == "fail", s
			}
			return out.Class == "ok", kvState{true, in.Value + s.Value, s.Flags}
		case wire.Delete:
			if !s.Present {
				return out.Class == "fail", s
			}
			return out.Class == "ok", kvState{}
		case wire.Touch:
			if !s.Present {
				return out.Class == "fail", s
			}
			return out.Class == "ok", s
		}
		return false, s
	},
	Equal: func(a, b interface{}) bool { return a.(kvState) == b.(kvState) },
	DescribeOperation: func(input, output interface{}) string {
		return fmt.Sprintf("%+v -> %+v", input, output)
	},
}

type sRun struct {
	Panics    []string
	Violation string
	Trace     [][2]int
	Switches  int
	Overlap   bool // two commands on one key overlapped in logical time, one of them mutating
	MaxHeld   int
	History   []string
}

// execProgram runs p under one schedule and checks the history.
func execProgram(p sProgram, prefix []int, inject func(l1, l2 *tierStore, res []*recResponder)) sRun {
	ls := getLockSet(p.Multi, p.Conc)
	s := NewSched(prefix)
	ls.cur = s
	var cur *Sched = s
	l1, l2 := newTier("L1", &cur), newTier("L2", &cur)
	for _, k := range p.Preset {
		it := tierItem{[]byte("init-" + k), 9, 7}
		l1.m[k], l2.m[k] = it, it
	}
	for _, k := range p.L2Only {
		l2.m[k] = tierItem{[]byte("init-" + k), 9, 7}
	}
	clock := int64(0)
	tick := func() int64 { clock++; return clock }
	var ops []porcupine.Operation
	type span struct {
		key       string
		call, ret int64
		mutating  bool
	}
	var spans []span
	resps := make([]*recResponder, len(p.Threads))
	for ti := range p.Threads {
		resps[ti] = &recResponder{}
	}
	if inject != nil {
		inject(l1, l2, resps)
	}
	mainC := orcas.LockedWithExisting(orcas.L1L2, ls.slot)
	batchC := orcas.LockedWithExisting(orcas.L1L2Batch, ls.slot)
	if p.Orca == "l1only" {
		mainC = orcas.LockedWithExisting(orcas.L1Only, ls.slot)
		batchC = mainC
	}
	var run sRun
	for ti, cmds := range p.Threads {
		ti, cmds := ti, cmds
		res := resps[ti]
		om, ob := mainC(l1, l2, res), batchC(l1, l2, res)
		s.Go(func(tid int) {
			for ci, c := range cmds {
				res.reset()
				o := om
				if c.Batch {
					o = ob
				}
				val := fmt.Sprintf("<T%d.%d>", ti, ci)
				flags := uint32(ti*100 + ci)
				ttl := uint32(1000 + ti*100 + ci) // a label, unique per command
				call := tick()
				var err error
				panicked := false
				func() {
					defer func() {
						if r := recover(); r != nil {
							panicked = true
							run.Panics = append(run.Panics, fmt.Sprintf("T%d %s: %v", ti, c, r))
						}
					}()
					switch c.Kind {
					case wire.Set:
						err = o.Set(common.SetRequest{Key: []byte(c.Keys[0]), Data: []byte(val), Flags: flags, Exptime: ttl})
					case wire.Add:
						err = o.Add(common.SetRequest{Key: []byte(c.Keys[0]), Data: []byte(val), Flags: flags, Exptime: ttl})
					case wire.Replace:
						err = o.Replace(common.SetRequest{Key: []byte(c.Keys[0]), Data: []byte(val), Flags: flags, Exptime: ttl})
					case wire.Append:
						err = o.Append(common.SetRequest{Key: []byte(c.Keys[0]), Data: []byte(val)})
					case wire.Prepend:
						err = o.Prepend(common.SetRequest{Key: []byte(c.Keys[0]), Data: []byte(val)})
					case wire.Delete:
						err = o.Delete(common.DeleteRequest{Key: []byte(c.Keys[0])})
					case wire.Touch:
						err = o.Touch(common.TouchRequest{Key: []byte(c.Keys[0]), Exptime: ttl})
					case wire.Gat:
						err = o.Gat(common.GATRequest{Key: []byte(c.Keys[0]), Exptime: ttl})
					case wire.Get:
						req := common.GetRequest{}
						for i, k := range c.Keys {
							req.Keys = append(req.Keys, []byte(k))
							req.Opaques = append(req.Opaques, uint32(i))
							req.Quiet = append(req.Quiet, false)
						}
						err = o.Get(req)
					case wire.GetE:
						req := common.GetRequest{}
						for i, k := range c.Keys {
							req.Keys = append(req.Keys, []byte(k))
							req.Opaques = append(req.Opaques, uint32(i))
							req.Quiet = append(req.Quiet, false)
						}
						err = o.GetE(req)
					}
				}()
				if h := s.threads[tid].held; h != 0 {
					run.Violation = fmt.Sprintf("T%d still holds %d key lock(s) after %s returned (panicked=%v)", ti, h, c, panicked)
				}
				if panicked {
					return // the connection is gone after a panic
				}
				ret := tick()
				class := "ok"
				switch err {
				case nil:
				case common.ErrKeyNotFound, common.ErrKeyExists, common.ErrItemNotStored:
					class = "fail"
				default:
					class = "error"
				}
				mut := c.Kind != wire.Get && c.Kind != wire.Gat && c.Kind != wire.Touch
				switch c.Kind {
				case wire.GetE:
					// only L1Only answers gete (the two-tier orchestrators return "unknown
					// command"); it takes part in the lock checks, not in the value model
					run.History = append(run.History, fmt.Sprintf("[%d,%d] T%d gete %v -> %s (%d values)", call, ret, ti, c.Keys, class, len(res.hits)))
				case wire.Get, wire.Gat:
					byOpq := map[uint32]common.GetResponse{}
					for _, h := range res.hits {
						byOpq[h.Opaque] = h
					}
					for i, k := range c.Keys {
						out := kvOut{Class: class}
						if h, ok := byOpq[uint32(i)]; ok && c.Kind == wire.Get {
							out.Hit, out.Value, out.Flags = true, string(h.Data), h.Flags
						} else if c.Kind == wire.Gat && len(res.hits) == 1 {
							out.Hit, out.Value, out.Flags = true, string(res.hits[0].Data), res.hits[0].Flags
						}
						ops = append(ops, porcupine.Operation{ClientId: ti, Input: kvIn{Kind: c.Kind, Key: k}, Call: call, Output: out, Return: ret})
						spans = append(spans, span{k, call, ret, false})
						run.History = append(run.History, fmt.Sprintf("[%d,%d] T%d %s %q -> %+v", call, ret, ti, c.Kind, k, out))
					}
					if c.Kind == wire.Get && err == nil && res.ends != 1 && inject == nil {
						run.Violation = fmt.Sprintf("T%d %s wrote %d get terminators", ti, c, res.ends)
					}
				default:
					out := kvOut{Class: class}
					ops = append(ops, porcupine.Operation{ClientId: ti, Input: kvIn{Kind: c.Kind, Key: c.Keys[0], Value: val, Flags: flags}, Call: call, Output: out, Return: ret})
					spans = append(spans, span{c.Keys[0], call, ret, mut})
					run.History = append(run.History, fmt.Sprintf("[%d,%d] T%d %s %q val=%s -> %s", call, ret, ti, c.Kind, c.Keys[0], val, class))
				}
			}
		})
	}
	done := make(chan struct{})
	go func() { s.Run(); close(done) }()
	select {
	case <-done:
	case <-time.After(120 * time.Second):
		run.Violation = "harness: scheduler run did not finish within 120s"
		return run
	}
	run.Trace, run.Switches = s.trace, s.switches
	for _, t := range s.threads {
		if t.maxHeld > run.MaxHeld {
			run.MaxHeld = t.maxHeld
		}
	}
	if s.HarnessErr != "" {
		run.Violation = "harness: " + s.HarnessErr
		return run
	}
	if s.Deadlock {
		run.Violation = "deadlock: no thread can proceed"
		// release whatever is held so later runs are not poisoned: the lock set is rebuilt
		resetLockSet(p.Multi, p.Conc)
		return run
	}
	if inject == nil && len(run.Panics) > 0 {
		run.Violation = "panic without an injected fault: " + run.Panics[0]
		return run
	}
	for _, t := range s.threads {
		if t.panicV != nil {
			run.Violation = fmt.Sprintf("thread %d panicked: %v", t.id, t.panicV)
			resetLockSet(p.Multi, p.Conc)
			return run
		}
	}
	for i := range spans {
		for j := i + 1; j < len(spans); j++ {
			a, b := spans[i], spans[j]
			if a.key == b.key && (a.mutating || b.mutating) && a.call < b.ret && b.call < a.ret {
				run.Overlap = true
			}
		}
	}
	if run.Violation != "" || inject != nil {
		return run
	}
	// linearizability, starting from the preset state: prepend synthetic sets
	var hist []porcupine.Operation
	t0 := int64(-1000)
	for _, k := range append(append([]string{}, p.Preset...), p.L2Only...) {
		hist = append(hist, porcupine.Operation{ClientId: 99, Input: kvIn{Kind: wire.Set, Key: k, Value: "init-" + k, Flags: 9}, Call: t0, Output: kvOut{Class: "ok"}, Return: t0 + 1})
		t0 += 2
	}
	hist = append(hist, ops...)
	if !porcupine.CheckOperations(kvModel, hist) {
		run.Violation = "the history is not linearizable with respect to the single-map model"
		return run
	}
	// afterwards L1 holds no entry that differs from L2's
	if p.Orca == "l1only" {
		return run
	}
	for k, it := range l1.m {
		o, ok := l2.m[k]
		if !ok || !bytes.Equal(o.value, it.value) || o.flags != it.flags || o.exp != it.exp {
			run.Violation = fmt.Sprintf("after all commands completed L1 holds %q = (%q, flags %d, ttl label %d) but L2 holds %v (%q, flags %d, ttl label %d)", k, it.value, it.flags, it.exp, ok, o.value, o.flags, o.exp)
			return run
		}
	}
	return run
}

// resetLockSet discards a poisoned lock set (some locker was left locked).
func resetLockSet(multi bool, conc uint8) {
	lockSetsMu.Lock()
	delete(lockSets, [2]int{b2i(multi), int(conc)})
	lockSetsMu.Unlock()
}

var allKinds = []wire.Kind{wire.Set, wire.Add, wire.Replace, wire.Append, wire.Prepend, wire.Delete, wire.Touch, wire.Get, wire.Gat}

// c03Catalogue: all ordered pairs of command kinds on one key x port assignment
// x initial state x lock mode, plus multi-key gets against writers on two keys.
func c03Catalogue() []sProgram {
	var out []sProgram
	for _, multi := range []bool{false, true} {
		for _, a := range allKinds {
			for _, b := range allKinds {
				for ports := 0; ports < 4; ports++ {
					for init := 0; init < 3; init++ {
						p := sProgram{Multi: multi, Conc: 0, Threads: [][]sCmd{
							{{Kind: a, Keys: []string{"k"}, Batch: ports&1 != 0}},
							{{Kind: b, Keys: []string{"k"}, Batch: ports&2 != 0}},
						}}
						switch init {
						case 1:
							p.Preset = []string{"k"}
						case 2:
							p.L2Only = []string{"k"}
						}
						out = append(out, p)
					}
				}
			}
		}
		// multi-key gets against writers, keys in the same and in different stripes
		for _, conc := range []uint8{0, 2} {
			for _, w := range []wire.Kind{wire.Set, wire.Delete, wire.Append, wire.Add} {
				for _, batch := range []bool{false, true} {
					out = append(out, sProgram{Multi: multi, Conc: conc, Preset: []string{"a"}, L2Only: []string{"b"}, Threads: [][]sCmd{
						{{Kind: wire.Get, Keys: []string{"a", "b", "a"}}},
						{{Kind: w, Keys: []string{"a"}, Batch: batch}, {Kind: w, Keys: []string{"b"}, Batch: batch}},
					}})
					out = append(out, sProgram{Multi: multi, Conc: conc, Preset: []string{"a", "b"}, Threads: [][]sCmd{
						{{Kind: wire.Get, Keys: []string{"a", "b"}}},
						{{Kind: wire.Get, Keys: []string{"b", "a"}, Batch: true}},
						{{Kind: w, Keys: []string{"b"}, Batch: batch}},
					}})
				}
			}
		}
		// one connection reads a key and then changes it (whatever the wrapper
		// remembers about the key from the read must not weaken the write's lock),
		// while another connection reads or writes the key
		for _, w := range []wire.Kind{wire.Set, wire.Append, wire.Delete, wire.Gat, wire.Touch} {
			for _, other := range []wire.Kind{wire.Get, wire.Set} {
				for init := 1; init < 3; init++ {
					for _, batch := range []bool{false, true} {
						p := sProgram{Multi: multi, Conc: 0, Threads: [][]sCmd{
							{{Kind: other, Keys: []string{"k"}}},
							{{Kind: wire.Get, Keys: []string{"k"}, Batch: batch}, {Kind: w, Keys: []string{"k"}, Batch: batch}},
						}}
						if init == 1 {
							p.Preset = []string{"k"}
						} else {
							p.L2Only = []string{"k"}
						}
						out = append(out, p)
					}
				}
			}
		}
		// one connection reads a key twice while another changes it twice: the two
		// answers must be explainable by one order of the four commands (a reader
		// that is not held off by the writer's lock can see the second change in
		// one tier and then the first in the other)
		for _, ws := range [][2]wire.Kind{{wire.Set, wire.Set}, {wire.Set, wire.Delete}, {wire.Set, wire.Append}, {wire.Delete, wire.Set}} {
			for ports := 0; ports < 4; ports++ {
				for init := 0; init < 3; init++ {
					p := sProgram{Multi: multi, Conc: 0, Threads: [][]sCmd{
						{{Kind: wire.Get, Keys: []string{"k"}, Batch: ports&1 != 0}, {Kind: wire.Get, Keys: []string{"k"}, Batch: ports&1 != 0}},
						{{Kind: ws[0], Keys: []string{"k"}, Batch: ports&2 != 0}, {Kind: ws[1], Keys: []string{"k"}, Batch: ports&2 != 0}},
					}}
					switch init {
					case 1:
						p.Preset = []string{"k"}
					case 2:
						p.L2Only = []string{"k"}
					}
					out = append(out, p)
				}
			}
		}
		// three connections on one key
		for _, trio := range [][3]wire.Kind{{wire.Set, wire.Append, wire.Get}, {wire.Add, wire.Delete, wire.Get}, {wire.Append, wire.Append, wire.Gat}, {wire.Set, wire.Get, wire.Get}, {wire.Replace, wire.Delete, wire.Prepend}} {
			out = append(out, sProgram{Multi: multi, Conc: 0, Preset: []string{"k"}, Threads: [][]sCmd{
				{{Kind: trio[0], Keys: []string{"k"}}}, {{Kind: trio[1], Keys: []string{"k"}, Batch: true}}, {{Kind: trio[2], Keys: []string{"k"}}},
			}})
		}
	}
	return out
}

func TestC03Systematic(t *testing.T) {
	rec := evid.For("C03")
	shard, shards := evid.Shard()
	cat := c03Catalogue()
	budget := 4000 // schedules per program
	if thorough() {
		budget = 1 << 30
	}
	total, complete := 0, 0
	for pi, p := range cat {
		if pi%shards != shard {
			continue
		}
		var prefix []int
		n := 0
		done := false
		for {
			run := execProgram(p, prefix, nil)
			n++
			total++
			rec.Case(run.Overlap, fmt.Sprintf("sys|%d|%v", pi, run.Trace), "systematic")
			if run.Violation != "" {
				sched := make([]int, len(run.Trace))
				for i, tr := range run.Trace {
					sched[i] = tr[0]
				}
				rp := rec.Violation("TestC03Replay", map[string]interface{}{"program": p, "schedule": sched})
				t.Errorf("C03 program %s schedule %v: %s\nhistory:\n  %s\nreplay %s", p, sched, run.Violation, strings.Join(run.History, "\n  "), rp)
				return
			}
			if run.Overlap && rec.WantSample(true) {
				rec.Sample(true, map[string]interface{}{"program": p.String(), "schedule(choice,enabled)": fmt.Sprint(run.Trace), "history": run.History})
			}
			prefix = NextPrefix(run.Trace)
			if prefix == nil {
				done = true
				break
			}
			if n >= budget {
				break
			}
		}
		if done {
			complete++
		} else {
			rec.Class("program-enumeration-truncated")
		}
	}
	rec.ClassN("programs", int64(complete))
	rec.ClassN("schedules", int64(total))
	if thorough() {
		rec.MarkExhaustive("all schedules (lock acquisitions and backend calls as yield points) of every program in the catalogue: all ordered pairs of the nine command kinds on one key x 4 port assignments x 3 initial states x {single,multi}-reader, multi-key gets against writers, three-connection programs")
	}
}

type c03Replay struct {
	Program  sProgram `json:"program"`
	Schedule []int    `json:"schedule"`
}

func TestC03Replay(t *testing.T) {
	path := evid.ReplayFile()
	if path == "" {
		t.Skip("no replay file")
	}
	var c c03Replay
	if _, err := evid.LoadReplay(path, &c); err != nil {
		t.Fatal(err)
	}
	run := execProgram(c.Program, c.Schedule, nil)
	if run.Violation != "" {
		t.Fatalf("C03 replay %s schedule %v: %s\nhistory:\n  %s", c.Program, c.Schedule, run.Violation, strings.Join(run.History, "\n  "))
	}
}

func TestC03Random(t *testing.T) {
	rec := evid.For("C03")
	rapid.Check(t, func(t *rapid.T) {
		p := sProgram{Multi: rapid.Bool().Draw(t, "multi"), Conc: rapid.SampledFrom([]uint8{0, 1, 2}).Draw(t, "conc")}
		if rapid.IntRange(0, 4).Draw(t, "l1only") == 0 {
			p.Orca = "l1only" // the locking wrapper around the single-tier orchestrator
		}
		keys := []string{"a", "b", "c"}
		if rapid.IntRange(0, 2).Draw(t, "oneKey") == 0 {
			keys = []string{"a"} // every command meets every other
		}
		for _, k := range keys {
			switch rapid.IntRange(0, 2).Draw(t, "init") {
			case 1:
				p.Preset = append(p.Preset, k)
			case 2:
				if p.Orca != "l1only" {
					p.L2Only = append(p.L2Only, k)
				}
			}
		}
		nt := rapid.IntRange(2, 4).Draw(t, "threads")
		for i := 0; i < nt; i++ {
			var cmds []sCmd
			for j := rapid.IntRange(1, 6).Draw(t, "ncmds"); j > 0; j-- {
				c := sCmd{Kind: rapid.SampledFrom(allKinds).Draw(t, "kind"), Batch: rapid.Bool().Draw(t, "batch")}
				nk := 1
				if c.Kind == wire.Get {
					nk = rapid.IntRange(1, 3).Draw(t, "nkeys")
				}
				for ; nk > 0; nk-- {
					c.Keys = append(c.Keys, rapid.SampledFrom(keys).Draw(t, "key"))
				}
				cmds = append(cmds, c)
			}
			p.Threads = append(p.Threads, cmds)
		}
		sched := rapid.SliceOfN(rapid.IntRange(0, 3), 0, 120).Draw(t, "schedule")
		run := execProgram(p, sched, nil)
		if run.Violation != "" {
			t.Fatalf("C03 random program %s schedule %v: %s\nhistory:\n  %s", p, sched, run.Violation, strings.Join(run.History, "\n  "))
		}
		rec.Case(run.Overlap, fmt.Sprintf("rnd|%s|%v", p, run.Trace), "random")
	})
}

// TestC03Memproxy: the real memproxy binary with --locked, concurrent clients
// on both ports hammering two keys, backend replies delayed by small drawn
// amounts to widen the windows; the observed real-time history must be
// linearizable and L1 must agree with L2 at the end.  Timing dependent: it can
// miss an atomicity defect but cannot raise a false alarm.
func TestC03Memproxy(t *testing.T) {
	bin := os.Getenv("VERIF_MEMPROXY")
	if bin == "" {
		t.Skip("VERIF_MEMPROXY not set")
	}
	rec := evid.For("C03")
	shard, _ := evid.Shard()
	cfgs := []stack.Config{
		{Shape: "l1l2+batch", Lock: "lockNr", L1: "std", L2: "std", Conc: 0},
		{Shape: "l1l2+batch", Lock: "lock1r", L1: "std", L2: "std", Conc: 2},
		{Shape: "l1l2+batch", Lock: "lockNr", L1: "std", L2: "std", Conc: 8},
		{Shape: "l1l2+batch", Lock: "lock1r", L1: "chunked", L2: "std", Conc: 0},
	}
	cfg := cfgs[shard%len(cfgs)]
	st, err := stack.External(cfg, bin)
	if err != nil {
		t.Fatalf("harness: %v", err)
	}
	defer st.Stop()
	var delaySeed uint32 = 12345
	delay := func(r *fakemc.Req) {
		x := atomic.AddUint32(&delaySeed, 2654435761)
		if d := (x >> 20) % 8; d > 4 {
			time.Sleep(time.Duration(d*40) * time.Microsecond)
		}
	}
	st.L1.Before, st.L2.Before = delay, delay
	rapid.Check(t, func(t *rapid.T) {
		st.Reset()
		clients := rapid.IntRange(3, 10).Draw(t, "clients")
		nops := rapid.IntRange(2, 6).Draw(t, "ops")
		keys := []string{"x", "y"}
		type plan struct {
			cmds []wire.Cmd
		}
		plans := make([][]wire.Cmd, clients)
		for ci := range plans {
			for s := 0; s < nops; s++ {
				kind := rapid.SampledFrom(allKinds).Draw(t, "kind")
				c := wire.Cmd{Kind: kind, Port: rapid.IntRange(0, 1).Draw(t, "port")}
				if kind == wire.Get {
					for j := rapid.IntRange(1, 2).Draw(t, "nkeys"); j > 0; j-- {
						c.Keys = append(c.Keys, rapid.SampledFrom(keys).Draw(t, "gkey"))
					}
				} else {
					c.Key = rapid.SampledFrom(keys).Draw(t, "key")
				}
				switch kind {
				case wire.Set, wire.Add, wire.Replace, wire.Append, wire.Prepend:
					c.Value = []byte(fmt.Sprintf("<%d.%d>", ci, s))
				}
				if kind == wire.Set || kind == wire.Add || kind == wire.Replace {
					c.Flags = uint32(ci*100 + s)
				}
				plans[ci] = append(plans[ci], c)
			}
		}
		var mu sync.Mutex
		var ops []porcupine.Operation
		var problems []string
		var wg sync.WaitGroup
		start := make(chan struct{})
		for ci := range plans {
			wg.Add(1)
			go func(ci int) {
				defer wg.Done()
				ses := &session{st: st, binary: true}
				defer ses.close()
				ses.client(0)
				ses.client(1)
				<-start
				for _, c := range plans[ci] {
					call := time.Now().UnixNano()
					o, err := ses.client(c.Port).Do(c)
					ret := time.Now().UnixNano()
					if err != nil || len(o.Problems) > 0 || o.Class == wire.Error || o.Class == wire.Closed {
						mu.Lock()
						problems = append(problems, fmt.Sprintf("client %d %s: %v %s", ci, c, err, o))
						mu.Unlock()
						return
					}
					class := "ok"
					if o.Class == wire.Fail {
						class = "fail"
					}
					mu.Lock()
					switch c.Kind {
					case wire.Get, wire.Gat:
						ks := c.Keys
						if c.Kind == wire.Gat {
							ks = []string{c.Key}
						}
						used := map[int]bool{}
						for _, k := range ks {
							out := kvOut{Class: "ok"}
							for hi, h := range o.Hits {
								if h.Key == k && !used[hi] {
									used[hi] = true
									out.Hit, out.Value, out.Flags = true, string(h.Value), h.Flags
									break
								}
							}
							ops = append(ops, porcupine.Operation{ClientId: ci, Input: kvIn{Kind: c.Kind, Key: k}, Call: call, Output: out, Return: ret})
						}
					default:
						ops = append(ops, porcupine.Operation{ClientId: ci, Input: kvIn{Kind: c.Kind, Key: c.Key, Value: string(c.Value), Flags: c.Flags}, Call: call, Output: kvOut{Class: class}, Return: ret})
					}
					mu.Unlock()
				}
			}(ci)
		}
		close(start)
		wg.Wait()
		if len(problems) > 0 {
			t.Fatalf("C03 memproxy %s: %s", cfg, problems[0])
		}
		if res, _ := porcupine.CheckOperationsVerbose(kvModel, ops, 20*time.Second); res == porcupine.Illegal {
			var h []string
			for _, op := range ops {
				h = append(h, fmt.Sprintf("[%d,%d] c%d %+v -> %+v", op.Call, op.Return, op.ClientId, op.Input, op.Output))
			}
			hp := rec.History("TestC03Memproxy", map[string]interface{}{"config": cfg.String(), "problem": "history not linearizable", "history": h})
			t.Fatalf("C03 memproxy %s: the observed history of %d operations is not linearizable (saved: %s)\n  %s", cfg, len(ops), hp, strings.Join(h, "\n  "))
		}
		if cfg.L1 != "chunked" {
			if d := l1SubsetOfL2(st); d != "" {
				t.Fatalf("C03 memproxy %s: after all clients finished: %s", cfg, d)
			}
		}
		rec.Case(true, fmt.Sprintf("mp|%s|%v", cfg, plans), "memproxy-binary-concurrent")
	})
}
