package props

import (
	"bytes"
	"fmt"
	"os"
	"runtime"
	"strings"
	"sync"
	"sync/atomic"
	"testing"
	"time"

	"github.com/netflix/rend/handlers/memcached/batched"
	"pgregory.net/rapid"

	"verifharness/evid"
	"verifharness/fakemc"
	"verifharness/wire"
)

type c13Fault struct {
	At    int    `json:"at"` // index of the backend request (since arming) that is hit
	Kind  string `json:"kind"`
	Bytes int    `json:"bytes,omitempty"`
}

func (f c13Fault) toFake() *fakemc.Fault {
	k := map[string]fakemc.FaultKind{
		"close-before": fakemc.FaultCloseBefore, "close-after-proc": fakemc.FaultCloseAfterProc,
		"close-mid-reply": fakemc.FaultCloseMidReply, "close-after-reply": fakemc.FaultCloseAfterReply,
	}[f.Kind]
	return &fakemc.Fault{At: f.At, Kind: k, Bytes: f.Bytes}
}

// c13Op is one call of a caller in the fault phase.
type c13Op struct {
	Kind   string   `json:"kind"` // get | set | append | gat | delete-missing | add-existing
	Keys   []string `json:"keys,omitempty"`
	Quiets []bool   `json:"quiets,omitempty"`
	// TextStyle: every key carries opaque 0 and is non-quiet, as the text parser
	// sends a multi-key get (duplicated keys are then indistinguishable requests)
	TextStyle bool `json:"text_style,omitempty"`
}

func c13Preload(f *fakemc.Server, callers int) {
	for ci := 0; ci < callers; ci++ {
		for r := 0; r < 4; r++ {
			// every immutable key expires in 100000 s (gete reports the remaining lifetime)
			f.Put(fmt.Sprintf("c%d-r%d", ci, r), fakemc.Entry{Value: c13Value(ci, r), Flags: c13Flags(ci, r), Deadline: time.Now().Unix() + 100000})
		}
		f.Put(fmt.Sprintf("c%d-ap", ci), fakemc.Entry{Value: []byte("base")})
	}
}

// c13Flags has no zero byte, so that a reply cut inside its extras cannot pass for the real thing.
func c13Flags(ci, r int) uint32 { return 0xC1D2E300 | uint32(ci*10+r+1) }

func c13Value(ci, r int) []byte {
	if r == 3 {
		return []byte{} // an empty value: its reply ends with the extras
	}
	return []byte(fmt.Sprintf("<immutable value of caller %d key %d %s>", ci, r, strings.Repeat("y", 50*r*r)))
}

func TestC13(t *testing.T) {
	rec := evid.For("C13")
	rapid.Check(t, func(t *rapid.T) {
		cfg := batchCfg{
			Size:  rapid.SampledFrom([]uint32{1, 2, 5, 10}).Draw(t, "batchSize"),
			Delay: rapid.SampledFrom([]uint32{50, 250, 2000}).Draw(t, "batchDelayMicros"),
			Pool:  rapid.SampledFrom([]int{1, 2, 4, 6}).Draw(t, "pool"),
		}
		env := batchEnvFor(cfg)
		f := env.fake
		f.Disarm()
		f.Refuse(false)
		callers := rapid.SampledFrom([]int{1, 2, 4, 8, 16}).Draw(t, "callers")
		nops := rapid.IntRange(3, 8).Draw(t, "ops")
		// wait until the pool is whole again after the previous case
		waitPool(t, env, cfg.Pool)
		f.Reset()
		c13Preload(f, callers)

		plans := make([][]c13Op, callers)
		for ci := range plans {
			for s := 0; s < nops; s++ {
				op := c13Op{Kind: rapid.SampledFrom([]string{"get", "get", "get", "set", "set-big", "append", "gat", "gete", "delete-missing", "add-existing"}).Draw(t, "op")}
				if op.Kind == "gat" || op.Kind == "gete" {
					op.Keys = []string{fmt.Sprintf("c%d-r%d", ci, rapid.SampledFrom([]int{1, 3, 3}).Draw(t, "rk1"))}
				}
				if op.Kind == "get" {
					for j := rapid.IntRange(1, 4).Draw(t, "nkeys"); j > 0; j-- {
						op.Keys = append(op.Keys, fmt.Sprintf("c%d-r%d", ci, rapid.IntRange(0, 3).Draw(t, "rk")))
						op.Quiets = append(op.Quiets, rapid.Bool().Draw(t, "quiet"))
					}
					if rapid.IntRange(0, 3).Draw(t, "textStyle") == 0 {
						op.TextStyle = true
						for j := range op.Quiets {
							op.Quiets[j] = false
						}
					}
				}
				plans[ci] = append(plans[ci], op)
			}
		}
		// a "poison" key: every request naming it cuts the connection, so a get that
		// includes it can never be completed and has to end in an error after all retries
		poison := rapid.IntRange(0, 3).Draw(t, "poison") == 0
		if poison {
			ci := rapid.IntRange(0, callers-1).Draw(t, "poisonCaller")
			pos := rapid.IntRange(0, nops-1).Draw(t, "poisonOp")
			keys := []string{fmt.Sprintf("c%d-r0", ci), "poison-key", fmt.Sprintf("c%d-r1", ci)}
			quiets := []bool{rapid.Bool().Draw(t, "pq0"), rapid.Bool().Draw(t, "pq1"), false}
			if rapid.IntRange(0, 2).Draw(t, "poisonLong") == 0 {
				// a get of hundreds of keys (more replies owed to one call than fit a byte),
				// the key that can never be answered in front
				n := rapid.SampledFrom([]int{256, 257, 300, 512}).Draw(t, "poisonLongKeys")
				keys, quiets = []string{"poison-key"}, []bool{true}
				for j := 1; j < n; j++ {
					keys = append(keys, fmt.Sprintf("c%d-r%d", ci, j%4))
					quiets = append(quiets, j < n-1)
				}
			}
			plans[ci][pos] = c13Op{Kind: "get", Keys: keys, Quiets: quiets}
		}
		total := callers * nops
		nf := rapid.IntRange(1, 4).Draw(t, "nfaults")
		var faults []c13Fault
		for i := 0; i < nf; i++ {
			fl := c13Fault{At: rapid.IntRange(0, total+total/2).Draw(t, "at"), Kind: rapid.SampledFrom([]string{"close-before", "close-after-proc", "close-mid-reply", "close-after-reply"}).Draw(t, "faultKind")}
			if fl.Kind == "close-mid-reply" {
				fl.Bytes = rapid.SampledFrom([]int{1, 23, 24, 25, 26, 28, 30, -1}).Draw(t, "bytes")
			}
			faults = append(faults, fl)
		}
		idleCut := rapid.IntRange(0, 3).Draw(t, "idleCut") == 0
		refuseMs := rapid.SampledFrom([]int{0, 0, 30, 150}).Draw(t, "refuseMs")
		descr := fmt.Sprintf("%+v callers=%d ops=%d faults=%+v idleCut=%v refuseMs=%d poisonKey=%v", cfg, callers, nops, faults, idleCut, refuseMs, poison)

		if idleCut {
			f.CloseConns()
		}
		var ff []*fakemc.Fault
		for _, fl := range faults {
			ff = append(ff, fl.toFake())
		}
		if poison {
			// first in the plan: it takes precedence over an index fault that happens to hit the same request
			ff = append([]*fakemc.Fault{{Match: func(r *fakemc.Req) bool { return strings.HasPrefix(r.Key, "poison") }, Kind: fakemc.FaultCloseBefore, Repeat: true}}, ff...)
		}
		acceptsBefore := f.Accepts()
		f.Arm(ff...)
		if refuseMs > 0 {
			f.Refuse(true)
			time.AfterFunc(time.Duration(refuseMs)*time.Millisecond, func() { f.Refuse(false) })
		}

		var wg sync.WaitGroup
		problems := make([]string, callers)
		ackedSets := make([]map[string][]byte, callers)
		ackedAppends := make([][]string, callers)
		var inflight int64
		for ci := range plans {
			wg.Add(1)
			go func(ci int) {
				defer wg.Done()
				h := env.handler()
				ackedSets[ci] = map[string][]byte{}
				for s, op := range plans[ci] {
					atomic.AddInt64(&inflight, 1)
					switch op.Kind {
					case "get":
						opq := make([]uint32, len(op.Keys))
						for j := range opq {
							opq[j] = uint32(100*s + j)
							if op.TextStyle {
								opq[j] = 0
							}
						}
						resps, err := execGetFull(h, op.Keys, opq, op.Quiets, false)
						hasPoison := false
						for _, k := range op.Keys {
							if k == "poison-key" {
								hasPoison = true
							}
						}
						if hasPoison && err == nil {
							problems[ci] = fmt.Sprintf("caller %d op %d get %v: one of the keys can never be answered (its requests always cut the connection) but the call reported no error; responses: %v", ci, s, op.Keys, resps)
						} else if err == nil {
							if len(resps) != len(op.Keys) {
								problems[ci] = fmt.Sprintf("caller %d op %d get %v: no error but %d responses for %d requested keys: %v", ci, s, op.Keys, len(resps), len(op.Keys), resps)
							}
							seen := map[uint32]bool{}
							owed := map[string]int{}
							for _, k := range op.Keys {
								owed[k]++
							}
							for _, r := range resps {
								if op.TextStyle {
									if owed[r.Key] == 0 || r.Opaque != 0 || r.Quiet {
										problems[ci] = fmt.Sprintf("caller %d op %d get %v (all opaque 0): response %s does not belong to this request (or is one too many for its key)", ci, s, op.Keys, r)
										continue
									}
									owed[r.Key]--
								} else {
									j := int(r.Opaque) - 100*s
									if j < 0 || j >= len(op.Keys) || seen[r.Opaque] || r.Key != op.Keys[j] || r.Quiet != op.Quiets[j] {
										problems[ci] = fmt.Sprintf("caller %d op %d get %v: response %s does not belong to this request (or is a duplicate)", ci, s, op.Keys, r)
										continue
									}
									seen[r.Opaque] = true
								}
								var rk int
								fmt.Sscanf(strings.SplitN(r.Key, "-r", 2)[1], "%d", &rk)
								if r.Miss || !bytes.Equal(r.Data, c13Value(ci, rk)) || r.Flags != c13Flags(ci, rk) {
									problems[ci] = fmt.Sprintf("caller %d op %d get %v: response %s is not the caller's own stored value", ci, s, op.Keys, r)
								}
							}
						} else {
							for _, r := range resps {
								var rk int
								if parts := strings.SplitN(r.Key, "-r", 2); len(parts) == 2 && strings.HasPrefix(r.Key, fmt.Sprintf("c%d-", ci)) {
									fmt.Sscanf(parts[1], "%d", &rk)
									if !r.Miss && !bytes.Equal(r.Data, c13Value(ci, rk)) {
										problems[ci] = fmt.Sprintf("caller %d op %d: response %s carries foreign bytes", ci, s, r)
									}
								} else {
									problems[ci] = fmt.Sprintf("caller %d op %d: response %s for a key it never asked for", ci, s, r)
								}
							}
						}
					case "gat":
						var rk int
						fmt.Sscanf(strings.SplitN(op.Keys[0], "-r", 2)[1], "%d", &rk)
						res, _ := execHandler(h, wire.Cmd{Kind: wire.Gat, Key: op.Keys[0], Exptime: 100000}, 0)
						if res.Err == nil {
							if hit := res.Hits[0]; hit == nil || !bytes.Equal(hit.Value, c13Value(ci, rk)) || hit.Flags != c13Flags(ci, rk) {
								problems[ci] = fmt.Sprintf("caller %d op %d gat %s: no error but result %+v is not the caller's stored value (flags %#x)", ci, s, op.Keys[0], hit, c13Flags(ci, rk))
							}
						}
					case "gete":
						var rk int
						fmt.Sscanf(strings.SplitN(op.Keys[0], "-r", 2)[1], "%d", &rk)
						res, _ := execHandler(h, wire.Cmd{Kind: wire.GetE, Keys: []string{op.Keys[0]}}, 0)
						if res.Err == nil {
							if hit := res.Hits[0]; hit == nil || !bytes.Equal(hit.Value, c13Value(ci, rk)) || hit.Flags != c13Flags(ci, rk) {
								problems[ci] = fmt.Sprintf("caller %d op %d gete %s: no error but result %+v is not the caller's stored value (flags %#x)", ci, s, op.Keys[0], hit, c13Flags(ci, rk))
							} else if len(res.Exps) != 1 || res.Exps[0] < 90000 || res.Exps[0] > 100001 {
								problems[ci] = fmt.Sprintf("caller %d op %d gete %s: no error but remaining lifetime %v, the stored item has about 100000 s", ci, s, op.Keys[0], res.Exps)
							}
						}
					case "set-big":
						// a request larger than the pooled connection's write buffer (64 KiB)
						k, v := fmt.Sprintf("c%d-w%d", ci, s), []byte(fmt.Sprintf("<big set by caller %d op %d %s>", ci, s, strings.Repeat("z", 70000)))
						if res, _ := execHandler(h, wire.Cmd{Kind: wire.Set, Key: k, Value: v, Flags: 3}, 0); res.Err == nil {
							ackedSets[ci][k] = v
						}
					case "set":
						k, v := fmt.Sprintf("c%d-w%d", ci, s), []byte(fmt.Sprintf("<set by caller %d op %d>", ci, s))
						if res, _ := execHandler(h, wire.Cmd{Kind: wire.Set, Key: k, Value: v, Flags: 3}, 0); res.Err == nil {
							ackedSets[ci][k] = v
						}
					case "append":
						m := fmt.Sprintf("<%d.%d>", ci, s)
						if res, _ := execHandler(h, wire.Cmd{Kind: wire.Append, Key: fmt.Sprintf("c%d-ap", ci), Value: []byte(m)}, 0); res.Err == nil {
							ackedAppends[ci] = append(ackedAppends[ci], m)
						}
					case "delete-missing":
						if res, _ := execHandler(h, wire.Cmd{Kind: wire.Delete, Key: fmt.Sprintf("c%d-nope%d", ci, s)}, 0); res.Err == nil {
							problems[ci] = fmt.Sprintf("caller %d op %d: delete of a key that never existed reported success", ci, s)
						}
					case "add-existing":
						if res, _ := execHandler(h, wire.Cmd{Kind: wire.Add, Key: fmt.Sprintf("c%d-r0", ci), Value: []byte("intruder")}, 0); res.Err == nil {
							problems[ci] = fmt.Sprintf("caller %d op %d: add on an existing key reported success", ci, s)
						}
					}
					atomic.AddInt64(&inflight, -1)
				}
			}(ci)
		}
		done := make(chan struct{})
		go func() { wg.Wait(); close(done) }()
		select {
		case <-done:
		case <-time.After(90 * time.Second):
			var dump [1 << 17]byte
			n := runtime.Stack(dump[:], true)
			t.Fatalf("C13 %s: %d calls still blocked 90s after the backend accepted connections again; goroutines:\n%s", descr, atomic.LoadInt64(&inflight), dump[:n])
		}
		fired := f.FaultsFired()
		// non-triviality: a fired fault hit a request with further requests of the same batch behind or before it
		inside := false
		log := f.Log() // the log and the request index both start at Reset, just before arming
		at := map[int]bool{}
		for _, fl := range faults {
			at[fl.At] = true
		}
		lastOnConn := map[int]fakemc.Req{}
		for _, r := range log {
			if at[r.Index] {
				if prev, ok := lastOnConn[r.Conn]; r.Buffered > 0 || (ok && prev.Buffered > 0) {
					inside = true
				}
			}
			lastOnConn[r.Conn] = r
		}
		f.Disarm()
		f.Refuse(false)
		for _, p := range problems {
			if p != "" {
				hp := rec.History("TestC13", map[string]interface{}{"case": descr, "problem": p, "plans": plans, "backend_log_len": len(log)})
				t.Fatalf("C13 %s: %s (saved: %s)", descr, p, hp)
			}
		}
		// acknowledged writes are in the backend
		waitPool(t, env, cfg.Pool)
		live := f.Live()
		for ci := range plans {
			for k, v := range ackedSets[ci] {
				if e, ok := live[k]; !ok || !bytes.Equal(e.Value, v) {
					t.Fatalf("C13 %s: set of %q was acknowledged but the backend holds %v %q", descr, k, ok, e.Value)
				}
			}
			ap := string(live[fmt.Sprintf("c%d-ap", ci)].Value)
			for _, m := range ackedAppends[ci] {
				if !strings.Contains(ap, m) {
					t.Fatalf("C13 %s: append of %s was acknowledged but the backend value is %q", descr, m, ap)
				}
			}
			if !strings.HasPrefix(ap, "base") {
				t.Fatalf("C13 %s: append target of caller %d is %q", descr, ci, ap)
			}
			for r := 0; r < 4; r++ {
				if e := live[fmt.Sprintf("c%d-r%d", ci, r)]; !bytes.Equal(e.Value, c13Value(ci, r)) {
					t.Fatalf("C13 %s: immutable key c%d-r%d now holds %q", descr, ci, r, e.Value)
				}
			}
		}
		// after recovery the pool serves normally: a fault-free workload is answered exactly
		var wg2 sync.WaitGroup
		rprob := make([]string, callers)
		for ci := 0; ci < callers; ci++ {
			wg2.Add(1)
			go func(ci int) {
				defer wg2.Done()
				h := env.handler()
				k, v := fmt.Sprintf("c%d-after", ci), []byte(fmt.Sprintf("<after recovery %d>", ci))
				if res, _ := execHandler(h, wire.Cmd{Kind: wire.Set, Key: k, Value: v, Flags: 77}, 0); res.Err != nil {
					rprob[ci] = fmt.Sprintf("set after recovery: %v", res.Err)
					return
				}
				res, _ := execHandler(h, wire.Cmd{Kind: wire.Get, Keys: []string{k, fmt.Sprintf("c%d-r2", ci), k + "-missing"}}, 0)
				if res.Err != nil || res.Hits[0] == nil || !bytes.Equal(res.Hits[0].Value, v) || res.Hits[0].Flags != 77 || res.Hits[1] == nil || !bytes.Equal(res.Hits[1].Value, c13Value(ci, 2)) || res.Hits[2] != nil {
					rprob[ci] = fmt.Sprintf("get after recovery: %+v", res)
				}
			}(ci)
		}
		done2 := make(chan struct{})
		go func() { wg2.Wait(); close(done2) }()
		select {
		case <-done2:
		case <-time.After(90 * time.Second):
			var dump [1 << 17]byte
			n := runtime.Stack(dump[:], true)
			t.Fatalf("C13 %s: the pool does not serve a fault-free workload 90s after the faults stopped; goroutines:\n%s", descr, dump[:n])
		}
		for _, p := range rprob {
			if p != "" {
				t.Fatalf("C13 %s: after recovery: %s", descr, p)
			}
		}
		if fired > 0 && f.Accepts()-acceptsBefore < 1 {
			t.Fatalf("C13 %s: %d connection cuts fired but the backend saw no reconnect", descr, fired)
		}
		rec.Case(inside, descr+fmt.Sprint(plans), fmt.Sprintf("pool=%d", cfg.Pool), fmt.Sprintf("faults-fired=%d", fired))
		if rec.WantSample(inside) {
			rec.Sample(inside, map[string]interface{}{"pool_config": fmt.Sprintf("%+v", cfg), "callers": callers, "ops_per_caller": nops, "faults": faults, "faults_fired": fired, "idle_cut": idleCut, "refuse_ms": refuseMs, "caller0_ops": plans[0]})
		}
	})
}

// waitPool waits until the fake sees pool-many open connections again; idle
// connections only notice a cut when they are used, so it keeps poking them.
func waitPool(t *rapid.T, env *batchEnv, pool int) {
	deadline := time.Now().Add(90 * time.Second)
	h := env.handler()
	for env.fake.OpenConns() < pool {
		if time.Now().After(deadline) {
			t.Fatalf("C13 %+v: only %d of %d pooled connections were re-established within 90s", env.cfg, env.fake.OpenConns(), pool)
		}
		done := make(chan struct{})
		go func() {
			for i := 0; i < pool*3; i++ {
				execHandler(h, wire.Cmd{Kind: wire.Get, Keys: []string{"poke"}}, 0)
			}
			close(done)
		}()
		select {
		case <-done:
		case <-time.After(20 * time.Second):
		}
		time.Sleep(5 * time.Millisecond)
	}
}

// TestC13LongOutage: the backend is gone -- nothing listens -- for seconds,
// long enough for a pooled connection's reconnect loop to go through many
// back-off rounds, with calls made during the outage.  Once the backend
// listens again, the blocked calls complete (result or error) and the pool
// serves normally; the process is still there.
func TestC13LongOutage(t *testing.T) {
	rec := evid.For("C13")
	shard, _ := evid.Shard()
	pool := []int{1, 2, 4}[shard%3]
	cfg := batchCfg{Size: 2, Delay: 250, Pool: pool}
	env := batchEnvFor(cfg)
	f := env.fake
	f.Disarm()
	f.Refuse(false)
	f.Reset()
	h := env.handler()
	if res, _ := execHandler(h, wire.Cmd{Kind: wire.Set, Key: "lo-before", Value: []byte("v0")}, 0); res.Err != nil {
		t.Fatalf("harness: set before the outage: %v", res.Err)
	}
	outage := time.Duration(5500+500*(shard%3)) * time.Millisecond
	f.StopListening()
	f.CloseConns()
	type outcome struct {
		i   int
		err error
	}
	callers := 3 * pool
	done := make(chan outcome, callers)
	for i := 0; i < callers; i++ {
		go func(i int) {
			time.Sleep(time.Duration(i*150) * time.Millisecond) // calls spread over the outage
			res, _ := execHandler(env.handler(), wire.Cmd{Kind: wire.Set, Key: fmt.Sprintf("lo-during-%d", i), Value: []byte("vd")}, 0)
			done <- outcome{i, res.Err}
		}(i)
	}
	time.Sleep(outage)
	os.Remove(env.sock)
	if err := f.ListenUnix(env.sock); err != nil {
		t.Fatalf("harness: cannot listen on %s again: %v", env.sock, err)
	}
	acked := map[int]bool{}
	for n := 0; n < callers; n++ {
		select {
		case o := <-done:
			if o.err == nil {
				acked[o.i] = true
			}
		case <-time.After(90 * time.Second):
			var dump [1 << 17]byte
			k := runtime.Stack(dump[:], true)
			p := rec.Violation("TestC13LongOutage", map[string]interface{}{"pool": pool, "outage_ms": outage.Milliseconds(), "unfinished_calls": callers - n})
			t.Fatalf("C13 long outage (pool %d, nothing listening for %v): %d of %d calls made during the outage are still blocked 90 s after the backend listens again; replay %s; goroutines:\n%s", pool, outage, callers-n, callers, p, dump[:k])
		}
	}
	// the pool serves normally again
	deadline := time.Now().Add(60 * time.Second)
	for {
		res, _ := execHandler(env.handler(), wire.Cmd{Kind: wire.Set, Key: "lo-after", Value: []byte("v1"), Flags: 4}, 0)
		if res.Err == nil {
			break
		}
		if time.Now().After(deadline) {
			p := rec.Violation("TestC13LongOutage", map[string]interface{}{"pool": pool, "outage_ms": outage.Milliseconds(), "error": res.Err.Error()})
			t.Fatalf("C13 long outage (pool %d): a minute after the backend listens again sets still fail: %v; replay %s", pool, res.Err, p)
		}
		time.Sleep(50 * time.Millisecond)
	}
	got, _ := execHandler(env.handler(), wire.Cmd{Kind: wire.Get, Keys: []string{"lo-after", "lo-before"}}, 0)
	if got.Err != nil || got.Hits[0] == nil || string(got.Hits[0].Value) != "v1" || got.Hits[0].Flags != 4 || got.Hits[1] == nil || string(got.Hits[1].Value) != "v0" {
		p := rec.Violation("TestC13LongOutage", map[string]interface{}{"pool": pool})
		t.Fatalf("C13 long outage (pool %d): get after recovery: %+v; replay %s", pool, got, p)
	}
	live := f.Live()
	for i := range acked {
		if e, ok := live[fmt.Sprintf("lo-during-%d", i)]; !ok || string(e.Value) != "vd" {
			t.Fatalf("C13 long outage: the set of lo-during-%d was acknowledged but the backend holds %v %q", i, ok, e.Value)
		}
	}
	rec.Case(true, fmt.Sprintf("longoutage|%d|%v", pool, outage), "outage-of-seconds-nothing-listening")
	rec.Sample(true, map[string]interface{}{"pool": pool, "nothing_listening_ms": outage.Milliseconds(), "calls_during_outage": callers, "acknowledged": len(acked)})
}

// TestC13ColdStart: the pool for a backend that is not up yet.  Two users ask
// for a handler of the same (not yet listening) socket a moment apart and use
// it at once; the backend starts listening later.  Every call must end in its
// real outcome or an error -- a set that was acknowledged is in the backend, a
// get answers for each of its keys.
func TestC13ColdStart(t *testing.T) {
	rec := evid.For("C13")
	shard, _ := evid.Shard()
	dir, err := os.MkdirTemp("", "vhcold")
	if err != nil {
		t.Fatal(err)
	}
	defer os.RemoveAll(dir)
	for round := 0; round < 4; round++ {
		sock := fmt.Sprintf("%s/cold%d.sock", dir, round)
		f := fakemc.New()
		gap := time.Duration(20+60*((round+shard)%3)) * time.Millisecond
		up := 350 * time.Millisecond
		opts := batched.Opts{BatchSize: 2, BatchDelayMicros: 100, EvaluationIntervalSec: 3600}
		type result struct {
			who    string
			setErr error
			get    hres
		}
		results := make(chan result, 2)
		user := func(who string, wait time.Duration) {
			time.Sleep(wait)
			h := batched.NewHandler(sock, opts)
			k := "cold-" + who
			set, _ := execHandler(h, wire.Cmd{Kind: wire.Set, Key: k, Value: []byte("stored by " + who), Flags: 7}, 0)
			get, _ := execHandler(h, wire.Cmd{Kind: wire.Get, Keys: []string{k, "cold-absent"}}, 0)
			results <- result{who, set.Err, get}
		}
		go user("first", 0)
		go user("second", gap)
		time.Sleep(up)
		if err := f.ListenUnix(sock); err != nil {
			t.Fatalf("harness: listen %s: %v", sock, err)
		}
		for n := 0; n < 2; n++ {
			select {
			case r := <-results:
				e, stored := f.Live()["cold-"+r.who]
				if r.setErr == nil && (!stored || string(e.Value) != "stored by "+r.who) {
					p := rec.Violation("TestC13ColdStart", map[string]interface{}{"user": r.who, "second_user_after_ms": gap.Milliseconds()})
					t.Fatalf("C13 cold start: the %s user's set (handler requested %v after the first, backend listening after %v) was acknowledged, but the backend holds %v %q; replay %s", r.who, gap, up, stored, e.Value, p)
				}
				if r.get.Err == nil {
					if len(r.get.Hits) != 2 || (r.setErr == nil && (r.get.Hits[0] == nil || string(r.get.Hits[0].Value) != "stored by "+r.who)) || r.get.Hits[1] != nil {
						p := rec.Violation("TestC13ColdStart", map[string]interface{}{"user": r.who, "second_user_after_ms": gap.Milliseconds()})
						t.Fatalf("C13 cold start: the %s user's get of [its key, an absent key] ended without error but answered %+v; replay %s", r.who, r.get, p)
					}
				}
			case <-time.After(90 * time.Second):
				var dump [1 << 17]byte
				k := runtime.Stack(dump[:], true)
				t.Fatalf("C13 cold start: a user's calls are still blocked 90 s after the backend started listening; goroutines:\n%s", dump[:k])
			}
		}
		rec.Case(true, fmt.Sprintf("coldstart|%d|%v", round, gap), "pool-created-before-the-backend-is-up")
	}
	rec.Sample(true, map[string]interface{}{"cold_start_rounds": 4, "backend_listens_after_ms": 350})
}
