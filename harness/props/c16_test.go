package props

import (
	"encoding/binary"
	"fmt"
	"strconv"
	"strings"
	"testing"

	"verifharness/evid"
	"verifharness/fakemc"
	"verifharness/wire"
)

// c16Check inspects the backend requests one store command generated.
func c16Check(log []fakemc.Req, key string, wantValue []byte, flags uint32) string {
	p := chunkPayload(len(key))
	full := p + tokenLen
	wantN := (len(wantValue) + p - 1) / p
	var chunks []fakemc.Req
	var meta *fakemc.Req
	for i := range log {
		r := &log[i]
		switch r.Opcode {
		case fakemc.OpSet, fakemc.OpAdd, fakemc.OpReplace:
			if r.Key == key+"-meta" {
				meta = r
			} else {
				chunks = append(chunks, *r)
			}
		}
	}
	if meta == nil {
		return "no metadata entry was written"
	}
	if meta.ValueLen != metaLen {
		return fmt.Sprintf("metadata entry has %d bytes, want %d", meta.ValueLen, metaLen)
	}
	md, _ := parseMeta(meta.Value)
	if int(md.Length) != len(wantValue) || int(md.NumChunks) != wantN || int(md.ChunkSize) != p || md.Flags != flags {
		return fmt.Sprintf("metadata records {len %d chunks %d chunksize %d flags %d}, want {len %d chunks %d chunksize %d flags %d}", md.Length, md.NumChunks, md.ChunkSize, md.Flags, len(wantValue), wantN, p, flags)
	}
	if len(chunks) != wantN {
		return fmt.Sprintf("%d chunk entries written, want ceil(%d/%d) = %d", len(chunks), len(wantValue), p, wantN)
	}
	var val []byte
	for i, c := range chunks {
		if c.Key != key+"-"+strconv.Itoa(i) {
			return fmt.Sprintf("chunk %d written under key %q", i, c.Key)
		}
		if c.ValueLen != full {
			return fmt.Sprintf("chunk %d has value length %d, want %d (= 1184 - 71 - keylen %d)", i, c.ValueLen, full, len(key))
		}
		if len(c.Key)+c.ValueLen+itemOverhead > slabBudget {
			return fmt.Sprintf("chunk %d: backend key %d + value %d + %d overhead = %d exceeds the %d-byte slab budget", i, len(c.Key), c.ValueLen, itemOverhead, len(c.Key)+c.ValueLen+itemOverhead, slabBudget)
		}
		if string(c.Value[:tokenLen]) != string(md.Token) {
			return fmt.Sprintf("chunk %d does not start with the metadata token", i)
		}
		val = append(val, c.Value[tokenLen:]...)
	}
	if len(val) < len(wantValue) || string(val[:len(wantValue)]) != string(wantValue) {
		return fmt.Sprintf("chunk payloads differ from the value at byte %d", firstDiff(wantValue, val))
	}
	for _, b := range val[len(wantValue):] {
		if b != 0 {
			return "last chunk is not zero-padded"
		}
	}
	return ""
}

// putForeignItem stores value under key in the chunked layout with a per-chunk
// payload of fp bytes, as a writer with other size constants would have.
func putForeignItem(f *fakemc.Server, key string, value []byte, flags uint32, fp int) {
	n := (len(value) + fp - 1) / fp
	token := []byte("foreign-token-16")
	meta := make([]byte, metaLen)
	binary.BigEndian.PutUint32(meta[0:4], uint32(len(value)))
	binary.BigEndian.PutUint32(meta[4:8], flags)
	binary.BigEndian.PutUint32(meta[8:12], uint32(n))
	binary.BigEndian.PutUint32(meta[12:16], uint32(fp))
	binary.BigEndian.PutUint32(meta[16:20], uint32(nowUnix()))
	copy(meta[24:40], token)
	f.Put(key+"-meta", fakemc.Entry{Value: meta})
	for i := 0; i < n; i++ {
		chunk := make([]byte, tokenLen+fp)
		copy(chunk, token)
		end := (i + 1) * fp
		if end > len(value) {
			end = len(value)
		}
		copy(chunk[tokenLen:], value[i*fp:end])
		f.Put(key+"-"+strconv.Itoa(i), fakemc.Entry{Value: chunk})
	}
}

// c16Key is the key of length kl that the enumeration uses.  What a key
// consists of must not matter to the layout (the handler is reached by
// binary-protocol keys of arbitrary bytes): blanks, control bytes, NUL, 0xff
// and percent signs in three of every five key lengths.
func c16Key(kl int) string {
	key := strings.Repeat("k", kl-1) + "z"
	if kl > 3 {
		key = fmt.Sprintf("%03d", kl) + strings.Repeat("k", kl-3)
	}
	if special := [][]byte{nil, {' ', '\t'}, nil, {0x00, 0xff}, {'%', 0x7f}}[kl%5]; special != nil {
		kb := []byte(key)
		kb[len(kb)-1] = special[0]
		kb[len(kb)/2] = special[1]
		if len(kb) > 2 {
			kb[0] = special[0]
		}
		key = string(kb)
	}
	return key
}

func TestC16(t *testing.T) {
	rec := evid.For("C16")
	shard, shards := evid.Shard()
	ops := 0
	for kl := 1; kl <= 250; kl++ {
		if kl%shards != shard {
			continue
		}
		key := c16Key(kl)
		p := chunkPayload(kl)
		lens := []int{0, 1, p - 1, p, p + 1, 2*p - 1, 2 * p, 2*p + 1, 3*p + 1, 10 * p}
		switch kl {
		case 1, 2, 125, 249, 250:
			lens = append(lens, 998*p+1, 999*p-1, 999*p)
		}
		h, f := newChunked()
		f.LogValues = true
		for _, vl := range lens {
			for _, path := range []string{"set", "add", "replace", "append", "prepend", "append-foreign", "prepend-foreign", "set-transient"} {
				if vl > 20*p && path != "set" && path != "append" {
					continue
				}
				if (strings.HasSuffix(path, "-foreign") || path == "set-transient") && (vl == 0 || vl > 3*p+1) {
					continue
				}
				f.Reset()
				// what the value consists of must not matter to the layout either: a third
				// of the stores carry all-zero values or values with zero tails
				shape := []int{0, 0, 1, 0, 2, 0, 3, 0, 4}[(kl*3+vl+len(path))%9]
				val := shapeValue(mkValue(uint32(vl*7+kl), vl), shape)
				flags := uint32(vl ^ kl<<8)
				// the expiry asked for must not matter to how an item is laid out
				ttl := ttlOf((kl+vl+len(path))%len(ttlClassNames), nowUnix())
				var want []byte
				run := func(c wire.Cmd) {
					// only the store under test (the command that writes the final layout)
					// carries the drawn expiry; a base item that is appended to must stay alive
					if (c.Kind == wire.Set && path == "set") || (c.Kind == wire.Add && path == "add") || (c.Kind == wire.Replace && path == "replace") {
						c.Exptime = ttl
						// neither must the quiet flag of the request (setq/addq/replaceq), which the
						// orchestrators hand down unchanged
						c.Quiet = (kl+vl)%2 == 1
					}
					res, intact := execHandler(h, c, kl%3*4)
					if res.Err != nil {
						t.Fatalf("C16 keylen %d valuelen %d path %s: %s failed: %v", kl, vl, path, c.Kind, res.Err)
					}
					if !intact {
						// not a violation by itself (bytes beyond len are not the caller's data); counted for the record
						rec.Class("handler-wrote-into-spare-key-capacity")
					}
				}
				switch path {
				case "set":
					run(wire.Cmd{Kind: wire.Set, Key: key, Value: val, Flags: flags})
					want = val
				case "add":
					run(wire.Cmd{Kind: wire.Add, Key: key, Value: val, Flags: flags})
					want = val
				case "replace":
					run(wire.Cmd{Kind: wire.Set, Key: key, Value: []byte("old"), Flags: 1})
					f.ResetLog()
					run(wire.Cmd{Kind: wire.Replace, Key: key, Value: val, Flags: flags})
					want = val
				case "append", "prepend":
					cut := vl / 3
					base, rest := val[:cut], val[cut:]
					if path == "prepend" {
						base, rest = val[vl-cut:], val[:vl-cut]
					}
					run(wire.Cmd{Kind: wire.Set, Key: key, Value: base, Flags: flags})
					f.ResetLog()
					k := wire.Append
					if path == "prepend" {
						k = wire.Prepend
					}
					run(wire.Cmd{Kind: k, Key: key, Value: rest})
					want = val
				case "set-transient":
					// the backend answers the store of the last chunk with "busy" or "temporary
					// failure" once: whether the handler gives up or tries again, every entry
					// that is stored must have the one size
					last := key + "-" + strconv.Itoa((vl+p-1)/p-1)
					status := uint16(0x85)
					if (kl+vl)%2 == 0 {
						status = 0x86
					}
					fired := false
					f.Arm(&fakemc.Fault{Kind: fakemc.FaultStatus, Status: status, Match: func(r *fakemc.Req) bool {
						if !fired && r.Key == last && (r.Opcode == fakemc.OpSet || r.Opcode == fakemc.OpSetQ) {
							fired = true
							return true
						}
						return false
					}})
					res, _ := execHandler(h, wire.Cmd{Kind: wire.Set, Key: key, Value: val, Flags: flags}, 0)
					f.Disarm()
					if res.Err != nil {
						// refused: what did get stored still has to follow the discipline
						for _, r := range f.Log() {
							if (r.Opcode == fakemc.OpSet || r.Opcode == fakemc.OpSetQ) && r.Status == 0 && r.Key != key+"-meta" && r.ValueLen != p+tokenLen {
								t.Fatalf("C16 keylen %d valuelen %d path %s: entry %q stored with value length %d, want %d", kl, vl, path, r.Key, r.ValueLen, p+tokenLen)
							}
						}
						rec.Class("store-refused-after-transient-failure")
						rec.Case(true, fmt.Sprintf("%d|%d|%s", kl, vl, path), "path:"+path)
						// an application error leaves the client's connection -- and so this
						// handler -- in service: the next store through the same handler must
						// lay its item out by the same rule (seed C16o: a chunk counter that
						// survives the refused store).  A store that fails is not judged.
						f.ResetLog()
						if res2, _ := execHandler(h, wire.Cmd{Kind: wire.Set, Key: key, Value: val, Flags: flags}, 0); res2.Err == nil {
							ops++
							rec.Case(true, fmt.Sprintf("%d|%d|%s", kl, vl, "set-after-refusal"), "path:set-after-refusal")
							if msg := c16Check(f.Log(), key, val, flags); msg != "" {
								rp := rec.Violation("TestC16Replay", map[string]interface{}{"keylen": kl, "valuelen": vl, "path": "set-after-refusal"})
								t.Fatalf("C16 keylen %d valuelen %d (payload %d) path set-after-refusal (store of %q refused with %#x, then the same store again on the same handler): %s; replay %s", kl, vl, p, last, status, msg, rp)
							}
						} else {
							rec.Class("store-after-refusal-failed-not-judged")
						}
						h.Close()
						h = chunkedOn(f) // the handler's connection state after an error is not this test's business
						continue
					}
					// accepted after all: the log holds the refused attempt and the retry; judge what is stored
					for _, r := range f.Log() {
						if (r.Opcode == fakemc.OpSet || r.Opcode == fakemc.OpSetQ) && r.Status == 0 && r.Key != key+"-meta" && r.ValueLen != p+tokenLen {
							rp := rec.Violation("TestC16Replay", map[string]interface{}{"keylen": kl, "valuelen": vl, "path": path})
							t.Fatalf("C16 keylen %d valuelen %d path %s (status %#x on the store of %q, then accepted): entry %q stored with value length %d, want %d; replay %s", kl, vl, path, status, last, r.Key, r.ValueLen, p+tokenLen, rp)
						}
					}
					rec.Case(true, fmt.Sprintf("%d|%d|%s", kl, vl, path), "path:"+path)
					continue
				case "append-foreign", "prepend-foreign":
					// the key already holds an item another writer stored with a different
					// per-chunk payload (it reads back fine); what this handler writes on
					// append/prepend must still follow the discipline for the key's length
					cut := vl / 3
					base, rest := val[:cut], val[cut:]
					if path == "prepend-foreign" {
						base, rest = val[vl-cut:], val[:vl-cut]
					}
					fp := p - 4
					if kl%2 == 0 {
						fp = p + 4
					}
					putForeignItem(f, key, base, flags, fp)
					f.ResetLog()
					k := wire.Append
					if path == "prepend-foreign" {
						k = wire.Prepend
					}
					res, _ := execHandler(h, wire.Cmd{Kind: k, Key: key, Value: rest}, 0)
					if res.Err != nil {
						// the handler does not accept the foreign item: nothing written, nothing to judge
						rec.Class("foreign-layout-item-not-accepted")
						continue
					}
					want = val
				}
				ops++
				msg := c16Check(f.Log(), key, want, flags)
				near := vl%p <= 1 || vl%p == p-1 || vl >= 998*p
				rec.Case(near, fmt.Sprintf("%d|%d|%s", kl, vl, path), "path:"+path)
				if msg != "" {
					rp := rec.Violation("TestC16Replay", map[string]interface{}{"keylen": kl, "valuelen": vl, "path": path})
					t.Fatalf("C16 keylen %d valuelen %d (payload %d) path %s: %s; replay %s", kl, vl, p, path, msg, rp)
				}
				if near && rec.WantSample(true) {
					rec.Sample(true, map[string]interface{}{"keylen": kl, "valuelen": vl, "payload_per_chunk": p, "path": path, "chunks": (vl + p - 1) / p})
				}
				if bad := f.Bad(); len(bad) > 0 {
					t.Fatalf("C16 keylen %d valuelen %d path %s: malformed backend request: %s", kl, vl, path, bad[0])
				}
			}
		}
		h.Close()
	}
	rec.MarkExhaustive("key lengths 1..250 x value lengths {0,1,p-1,p,p+1,2p-1,2p,2p+1,3p+1,10p} (+ {998p+1,999p-1,999p} for key lengths 1,2,125,249,250) x paths set/add/replace/append/prepend (+ append/prepend onto an item stored by another writer with a per-chunk payload 4 bytes off, value lengths <= 3p+1)")
}

// TestC16Replay re-runs one (keylen, valuelen, path) case.
func TestC16Replay(t *testing.T) {
	path := evid.ReplayFile()
	if path == "" {
		t.Skip("no replay file")
	}
	var c struct {
		Keylen, Valuelen int
		Path             string
	}
	if _, err := evid.LoadReplay(path, &c); err != nil {
		t.Fatal(err)
	}
	key := c16Key(c.Keylen)
	h, f := newChunked()
	f.LogValues = true
	val := shapeValue(mkValue(uint32(c.Valuelen*7+c.Keylen), c.Valuelen), []int{0, 0, 1, 0, 2, 0, 3, 0, 4}[(c.Keylen*3+c.Valuelen+len(c.Path))%9])
	if c.Path == "set-after-refusal" {
		pl := chunkPayload(c.Keylen)
		val = shapeValue(mkValue(uint32(c.Valuelen*7+c.Keylen), c.Valuelen), []int{0, 0, 1, 0, 2, 0, 3, 0, 4}[(c.Keylen*3+c.Valuelen+len("set-transient"))%9])
		last := key + "-" + strconv.Itoa((c.Valuelen+pl-1)/pl-1)
		status := uint16(0x85)
		if (c.Keylen+c.Valuelen)%2 == 0 {
			status = 0x86
		}
		fired := false
		f.Arm(&fakemc.Fault{Kind: fakemc.FaultStatus, Status: status, Match: func(r *fakemc.Req) bool {
			if !fired && r.Key == last && (r.Opcode == fakemc.OpSet || r.Opcode == fakemc.OpSetQ) {
				fired = true
				return true
			}
			return false
		}})
		execHandler(h, wire.Cmd{Kind: wire.Set, Key: key, Value: val, Flags: 9}, 0)
		f.Disarm()
		f.ResetLog()
		if res, _ := execHandler(h, wire.Cmd{Kind: wire.Set, Key: key, Value: val, Flags: 9}, 0); res.Err != nil {
			t.Skipf("second store failed (%v): not judged", res.Err)
		}
	} else if c.Path == "append" || c.Path == "prepend" {
		execHandler(h, wire.Cmd{Kind: wire.Set, Key: key, Value: val[:c.Valuelen/3], Flags: 9}, 0)
		f.ResetLog()
		execHandler(h, wire.Cmd{Kind: wire.Append, Key: key, Value: val[c.Valuelen/3:]}, 0)
	} else {
		// the same expiry as in the enumeration (set/add/replace paths)
		ttl := uint32(0)
		if c.Path == "set" || c.Path == "add" || c.Path == "replace" {
			ttl = ttlOf((c.Keylen+c.Valuelen+len(c.Path))%len(ttlClassNames), nowUnix())
		}
		execHandler(h, wire.Cmd{Kind: wire.Set, Key: key, Value: val, Flags: 9, Exptime: ttl, Quiet: (c.Keylen+c.Valuelen)%2 == 1}, 0)
	}
	if msg := c16Check(f.Log(), key, val, 9); msg != "" {
		t.Fatalf("C16 replay keylen %d valuelen %d: %s", c.Keylen, c.Valuelen, msg)
	}
}
