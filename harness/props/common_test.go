package props

import (
	"bytes"
	"flag"
	"fmt"
	"io"
	"log"
	"net"
	"os"
	"runtime"
	"sort"
	"strings"
	"sync/atomic"
	"syscall"
	"testing"
	"time"

	"pgregory.net/rapid"

	"verifharness/evid"
	"verifharness/refmodel"
	"verifharness/stack"
	"verifharness/wire"
)

func TestMain(m *testing.M) {
	flag.Parse()
	log.SetOutput(io.Discard)
	if os.Getenv("VERIF_STALLWATCH") != "" {
		go stallWatchdog(os.Getenv("VERIF_PROP"))
	}
	code := m.Run()
	evid.Flush()
	stack.Cleanup()
	os.Exit(code)
}

// stallWatchdog is the hang oracle of last resort for a test process: when no
// evidence event (case, class, sample) has been recorded for four minutes and
// the whole process then uses less than half a second of CPU in a further
// twenty seconds, nothing is slow -- everything is blocked.  A call into the
// code under test that never returns is what every property forbids in its own
// words (a reply, an outcome, a reading), so that is reported as a violation
// with the goroutine dump as the history; a process that is merely busy or slow
// is left to the go test deadline, which the driver counts as inconclusive.
func stallWatchdog(prop string) {
	last, since := int64(-1), time.Now()
	for {
		time.Sleep(5 * time.Second)
		p := evid.Progress()
		if p != last {
			last, since = p, time.Now()
			continue
		}
		if time.Since(since) < 240*time.Second {
			continue
		}
		c0 := processCPU()
		time.Sleep(20 * time.Second)
		if evid.Progress() != last || processCPU()-c0 > 500*time.Millisecond {
			continue
		}
		dump := make([]byte, 1<<20)
		dump = dump[:runtime.Stack(dump, true)]
		var blocked []string
		for _, g := range strings.Split(string(dump), "\n\n") {
			if strings.Contains(g, "github.com/netflix/rend/") && !strings.Contains(g, "[IO wait") {
				blocked = append(blocked, g)
			}
		}
		if len(blocked) > 12 {
			blocked = blocked[:12]
		}
		if prop == "" {
			prop = "unknown"
		}
		path := evid.For(prop).Violation("stalled", map[string]interface{}{"problem": "no case finished for more than four minutes while the process was idle: a call into the code under test never returned", "goroutines_in_rend_code_not_waiting_for_io": blocked})
		fmt.Printf("--- FAIL: stall watchdog (%s): no case finished for %v and the process is idle (%d goroutines inside rend code are blocked on something other than I/O); replay %s\n%s\n", prop, time.Since(since).Round(time.Second), len(blocked), path, strings.Join(blocked, "\n\n"))
		evid.Flush()
		os.Exit(1)
	}
}

func thorough() bool { return evid.Tier() == "thorough" }

// Bounds for "this would never return".  Normal latencies are below a
// millisecond; the first suspected hang of a process is given a whole minute so
// that a loaded machine cannot produce a false alarm, later ones (the tree is
// known to be broken then) only a few seconds so that a failing run still ends.
var hangSeen int32

func hangBound() time.Duration {
	if atomic.LoadInt32(&hangSeen) != 0 {
		return 5 * time.Second
	}
	return 60 * time.Second
}

func noteHang() { atomic.StoreInt32(&hangSeen, 1) }

// hangProbe decides, after a client has waited out its (two minute) timeout,
// whether the server is hanging or the machine is merely slow: five fresh
// connections must each be answered (no-op) within two seconds, and the victim
// connection must still be silent ten seconds after that, during which the
// process must have been idle (less than one second of CPU time: a slow
// request keeps it busy).  Only then is the missing reply called a hang.
func hangProbe(st *stack.Stack, victim *wire.Client) bool {
	for i := 0; i < 5; i++ {
		c := wire.NewClient(st.Dial(0), true)
		c.Timeout = 2 * time.Second
		out, err := c.Do(wire.Cmd{Kind: wire.Noop})
		c.Close()
		if err != nil || out.Class != wire.OK {
			return false
		}
	}
	cpu0 := processCPU()
	victim.C.SetReadDeadline(time.Now().Add(10 * time.Second))
	_, err := victim.R.Peek(1)
	ne, ok := err.(net.Error)
	if !(err != nil && ok && ne.Timeout()) {
		return false
	}
	// a request that is merely slow (race-detector build, large values, many
	// connections) keeps the process busy; one that hangs leaves it idle
	return processCPU()-cpu0 < time.Second
}

// processCPU is the CPU time (user + system) this process has used so far.
func processCPU() time.Duration {
	var ru syscall.Rusage
	if err := syscall.Getrusage(syscall.RUSAGE_SELF, &ru); err != nil {
		return 0
	}
	return time.Duration(ru.Utime.Nano() + ru.Stime.Nano())
}

// undecidedOrHang is undecided unless the error is a client timeout that
// hangProbe confirms as a hang, which is reported as a failure of the case.
func undecidedOrHang(t *rapid.T, rec *evid.Rec, st *stack.Stack, victim *wire.Client, err error, msg string) {
	if err == wire.ErrTimeout && hangProbe(st, victim) {
		var dump [1 << 17]byte
		n := runtime.Stack(dump[:], true)
		t.Fatalf("%s: no reply within %v, and still none ten seconds later, while five fresh connections were each answered within two seconds: the request hangs; goroutines:\n%s", msg, victim.Timeout, dump[:n])
	}
	undecided(t, rec, msg)
}

// undecided marks a rapid case as inconclusive (harness timeout in a property
// that is not about hanging) and abandons it.
func undecided(t *rapid.T, rec *evid.Rec, msg string) {
	rec.Inconclusive(msg)
	t.Skip("inconclusive: " + msg)
}

// ---------- generators ----------

// mkValue builds a deterministic value of n bytes from a seed; it contains CR,
// LF, 0x80 and NUL bytes so that framing mistakes show.
func mkValue(seed uint32, n int) []byte {
	b := make([]byte, n)
	x := seed*2654435761 + 12345
	for i := range b {
		x = x*1664525 + 1013904223
		c := byte(x >> 24)
		switch (x >> 8) & 31 {
		case 0:
			c = '\r'
		case 1:
			c = '\n'
		case 2:
			c = 0x80
		case 3:
			c = 0
		case 4:
			c = ' '
		}
		b[i] = c
	}
	return b
}

// 1095..1097 and 2192 sit on the chunk payload boundaries of one-byte keys (payload 1096)
var valueSizes = []int{0, 1, 2, 7, 30, 1095, 1096, 1097, 1500, 2192, 5000}

// genStoreValue is genValue plus, rarely, a value of more than 64 KiB.  Only for
// set/add/replace: together with the appends of a long sequence an item must
// stay within what the chunked handler is built for (999 chunks, i.e. about
// 846 000 bytes under a 250-byte key).
// shapeValue changes what a value consists of (not its length): 0 leaves it
// alone, 1 all zero bytes, 2 the second half zero, 3 only the last byte zero,
// 4 a zero tail longer than a chunk (1200 bytes), 5 the first half zero, 6 all
// 0xff.  Zero-padded records, sparse buffers and saturated bitmaps are
// ordinary cache payloads.
func shapeValue(b []byte, class int) []byte {
	fill := func(from, to int, c byte) {
		for i := from; i < to && i < len(b); i++ {
			if i >= 0 {
				b[i] = c
			}
		}
	}
	switch class {
	case 1:
		fill(0, len(b), 0)
	case 2:
		fill(len(b)/2, len(b), 0)
	case 3:
		fill(len(b)-1, len(b), 0)
	case 4:
		fill(len(b)-1200, len(b), 0)
	case 5:
		fill(0, len(b)/2, 0)
	case 6:
		fill(0, len(b), 0xff)
	}
	return b
}

// genShape draws a content class: three quarters of the values stay as they are.
func genShape(t *rapid.T, label string) int {
	if rapid.IntRange(0, 3).Draw(t, label+"Shaped") != 0 {
		return 0
	}
	return rapid.IntRange(1, 6).Draw(t, label+"Shape")
}

func genStoreValue(t *rapid.T, label string) []byte {
	if rapid.IntRange(0, 39).Draw(t, label+"Big") == 0 {
		size := rapid.SampledFrom([]int{65536, 70000, 120000}).Draw(t, label+"BigSize")
		return mkValue(rapid.Uint32Range(0, 999).Draw(t, label+"Seed"), size)
	}
	return genValue(t, label)
}

func genValue(t *rapid.T, label string) []byte {
	size := rapid.SampledFrom(valueSizes).Draw(t, label+"Size")
	if size >= 1500 {
		size += rapid.IntRange(-3, 3).Draw(t, label+"Jitter")
	}
	seed := rapid.Uint32Range(0, 999).Draw(t, label+"Seed")
	return shapeValue(mkValue(seed, size), genShape(t, label))
}

func genFlags(t *rapid.T, label string) uint32 {
	if rapid.IntRange(0, 3).Draw(t, label+"Kind") == 0 {
		return rapid.Uint32().Draw(t, label)
	}
	return rapid.SampledFrom([]uint32{0, 1, 0xffffffff, 0x80000000, 42}).Draw(t, label)
}

// TTL classes; absolute ones are relative to the wall clock at draw time.
var ttlClassNames = []string{"0", "100", "5000", "30d", "30d+1", "abs-future", "abs-past"}

func ttlOf(class int, now int64) uint32 {
	switch class {
	case 0:
		return 0
	case 1:
		return 100
	case 2:
		return 5000
	case 3:
		return 2592000
	case 4:
		return 2592001
	case 5:
		return uint32(now + 1000000)
	case 6:
		return uint32(now - 100000)
	}
	panic("ttl class")
}

func genTTL(t *rapid.T, label string, now int64) uint32 {
	return ttlOf(rapid.IntRange(0, len(ttlClassNames)-1).Draw(t, label), now)
}

var smallKeys = []string{"a", "b", "c", "d"}

// keyAlphabets: the usual four short keys, keys that look like the chunked
// handler's derived entry names, keys at the 250-byte limit, and keys with
// percent signs.
var keyAlphabets = [][]string{
	smallKeys, smallKeys, smallKeys,
	{"a", "a-0", "a-meta", "a-1"},
	{strings.Repeat("K", 249) + "1", strings.Repeat("K", 249) + "2", "k", strings.Repeat("K", 248) + "-0"},
	{"100%", "%d%s", "load%dump", "a%20b"}, // legal keys that mean something to a formatting routine
}

func genAlphabet(t *rapid.T) []string {
	return keyAlphabets[rapid.IntRange(0, len(keyAlphabets)-1).Draw(t, "alphabet")]
}

// cmdGenOpts steers genCmd.
type cmdGenOpts struct {
	Binary    bool
	Keys      []string
	TwoPorts  bool
	NoExpiry  bool // TTLs only from {0, far future}
	NoGat     bool
	GetE      bool // gete (binary, single-tier orchestrator only)
	MaxGetLen int
}

func genCmd(t *rapid.T, o cmdGenOpts, now int64) wire.Cmd {
	kinds := []wire.Kind{wire.Set, wire.Set, wire.Add, wire.Replace, wire.Append, wire.Prepend, wire.Delete, wire.Touch, wire.Get, wire.Get}
	if o.Binary && !o.NoGat {
		kinds = append(kinds, wire.Gat)
	}
	if o.Binary && o.GetE {
		kinds = append(kinds, wire.GetE)
	}
	k := rapid.SampledFrom(kinds).Draw(t, "kind")
	c := wire.Cmd{Kind: k}
	if o.TwoPorts {
		c.Port = rapid.IntRange(0, 1).Draw(t, "port")
	}
	ttl := func() uint32 {
		if o.NoExpiry {
			return ttlOf(rapid.SampledFrom([]int{0, 2, 5}).Draw(t, "ttl"), now)
		}
		return genTTL(t, "ttl", now)
	}
	switch k {
	case wire.Set, wire.Add, wire.Replace:
		c.Key = rapid.SampledFrom(o.Keys).Draw(t, "key")
		c.Value = genStoreValue(t, "val")
		c.Flags = genFlags(t, "flags")
		c.Exptime = ttl()
		if o.Binary {
			c.Quiet = rapid.IntRange(0, 4).Draw(t, "quiet") == 0
		}
	case wire.Append, wire.Prepend:
		c.Key = rapid.SampledFrom(o.Keys).Draw(t, "key")
		c.Value = genValue(t, "val")
		if !o.Binary {
			// text append carries flags/ttl fields which must be ignored
			c.Flags = genFlags(t, "flags")
			c.Exptime = ttl()
		} else {
			c.Quiet = rapid.IntRange(0, 4).Draw(t, "quiet") == 0
		}
	case wire.Delete:
		c.Key = rapid.SampledFrom(o.Keys).Draw(t, "key")
	case wire.Touch, wire.Gat:
		c.Key = rapid.SampledFrom(o.Keys).Draw(t, "key")
		c.Exptime = ttl()
	case wire.Get, wire.GetE:
		max := o.MaxGetLen
		if max == 0 {
			max = 5
		}
		n := rapid.IntRange(1, max).Draw(t, "nkeys")
		for i := 0; i < n; i++ {
			c.Keys = append(c.Keys, rapid.SampledFrom(o.Keys).Draw(t, "gkey"))
		}
		if o.Binary {
			c.NoopEnd = rapid.Bool().Draw(t, "noopEnd")
		}
	}
	return c
}

// ---------- comparing an outcome with the model ----------

type hitKey struct {
	k, v  string
	flags uint32
}

func hitMultiset(hs []wire.Hit) map[hitKey]int {
	m := map[hitKey]int{}
	for _, h := range hs {
		m[hitKey{h.Key, string(h.Value), h.Flags}]++
	}
	return m
}

func short(b []byte) string {
	if len(b) > 16 {
		return fmt.Sprintf("%q…[%d]", b[:16], len(b))
	}
	return fmt.Sprintf("%q", b)
}

// compare returns "" if the outcome matches the expectation, else a description.
func compare(c wire.Cmd, binary bool, exp refmodel.Expect, got wire.Outcome) string {
	if len(got.Problems) > 0 {
		return "protocol problems: " + strings.Join(got.Problems, "; ")
	}
	switch c.Kind {
	case wire.Get, wire.Gat, wire.GetE:
		if got.Class != wire.OK {
			return fmt.Sprintf("read answered with class %s (%s)", got.Class, got.String())
		}
		want := map[hitKey]int{}
		nh := 0
		for _, h := range exp.Hits {
			if h != nil {
				want[hitKey{h.Key, string(h.Value), h.Flags}]++
				nh++
			}
		}
		have := hitMultiset(got.Hits)
		if len(got.Hits) != nh {
			return fmt.Sprintf("got %d values, model says %d hits (%s)", len(got.Hits), nh, got.String())
		}
		for k, n := range want {
			if have[k] != n {
				return fmt.Sprintf("value for key %q (flags %d, %s) expected %d times, got %d (%s)", k.k, k.flags, short([]byte(k.v)), n, have[k], got.String())
			}
		}
		if !got.Terminated {
			return "no terminator: " + got.String()
		}
		if binary {
			// explicit not-found replies: exactly the non-quiet misses
			wantMiss := 0
			if c.Kind == wire.Gat {
				if exp.Hits[0] == nil {
					wantMiss = 1
				}
			} else if !c.NoopEnd && exp.Hits[len(exp.Hits)-1] == nil {
				wantMiss = 1
			}
			if len(got.Misses) != wantMiss {
				return fmt.Sprintf("got %d explicit not-found replies, want %d (%s)", len(got.Misses), wantMiss, got.String())
			}
		}
		return ""
	}
	want := wire.Class(exp.Class)
	if got.Class != want {
		return fmt.Sprintf("class %s, model says %s (%s)", got.Class, want, got.String())
	}
	return ""
}

// ---------- backend comparison ----------

// backendDiff compares the live contents of a fake with the model's live items.
func backendDiff(live map[string]entryView, m *refmodel.Model, now int64) string {
	keys := m.LiveKeys(now)
	for _, k := range keys {
		it := m.M[k]
		e, ok := live[k]
		if !ok {
			return fmt.Sprintf("backend lacks live model key %q", k)
		}
		if !bytes.Equal(e.Value, it.Value) || e.Flags != it.Flags {
			return fmt.Sprintf("backend entry %q = (%s, flags %d), model = (%s, flags %d)", k, short(e.Value), e.Flags, short(it.Value), it.Flags)
		}
	}
	if len(live) != len(keys) {
		var extra []string
		for k := range live {
			if m.Live(k, now) == nil {
				extra = append(extra, k)
			}
		}
		sort.Strings(extra)
		if len(extra) > 0 {
			return fmt.Sprintf("backend holds live entries the model does not: %q", extra)
		}
	}
	return ""
}

type entryView struct {
	Value    []byte
	Flags    uint32
	Deadline int64
}

func nowUnix() int64 { return time.Now().Unix() }

func cmdsString(cs []wire.Cmd) []string {
	out := make([]string, len(cs))
	for i, c := range cs {
		out[i] = c.String()
	}
	return out
}
