package props

import (
	"fmt"
	"strings"
	"sync"
	"testing"
	"time"

	"github.com/anishathalye/porcupine"
	"github.com/netflix/rend/handlers/inmem"

	"verifharness/evid"
	"verifharness/wire"
)

// TestC17Linearizable: several goroutines operate on the same two keys of the
// shared in-memory backend; the observed real-time history must be
// linearizable w.r.t. the reference map (a lost update or a resurrected key is
// data corruption even when no data race is reported).
func TestC17Linearizable(t *testing.T) {
	rec := evid.For("C17")
	h, _ := inmem.New()
	rounds := 4000
	if thorough() {
		rounds = 60000
	}
	x := uint32(evid.Seed())*2654435761 + 99
	next := func() uint32 { x = x*1664525 + 1013904223; return x >> 8 }
	kinds := []wire.Kind{wire.Set, wire.Set, wire.Touch, wire.Touch, wire.Delete, wire.Append, wire.Prepend, wire.Add, wire.Replace, wire.Get, wire.Gat}
	for round := 0; round < rounds; round++ {
		keys := c17Keys()[:2]
		g := 2 + int(next()%4)
		nops := 2 + int(next()%4)
		plans := make([][]wire.Cmd, g)
		for gi := range plans {
			for s := 0; s < nops; s++ {
				c := wire.Cmd{Kind: kinds[next()%uint32(len(kinds))], Key: keys[next()%2]}
				if c.Kind == wire.Get {
					c.Keys = []string{c.Key}
				}
				switch c.Kind {
				case wire.Set, wire.Add, wire.Replace, wire.Append, wire.Prepend:
					c.Value = []byte(fmt.Sprintf("<%d.%d.%d>", round, gi, s))
				}
				if c.Kind == wire.Set || c.Kind == wire.Add || c.Kind == wire.Replace {
					c.Flags = uint32(gi*100 + s)
				}
				plans[gi] = append(plans[gi], c)
			}
		}
		var mu sync.Mutex
		var ops []porcupine.Operation
		var wg sync.WaitGroup
		start := make(chan struct{})
		for gi := range plans {
			wg.Add(1)
			go func(gi int) {
				defer wg.Done()
				<-start
				for _, c := range plans[gi] {
					call := time.Now().UnixNano()
					res, _ := execHandler(h, c, 0)
					ret := time.Now().UnixNano()
					out := kvOut{Class: res.Class.String()}
					if (c.Kind == wire.Get || c.Kind == wire.Gat) && res.Err == nil && res.Hits[0] != nil {
						out.Hit, out.Value, out.Flags = true, string(res.Hits[0].Value), res.Hits[0].Flags
					}
					mu.Lock()
					ops = append(ops, porcupine.Operation{ClientId: gi, Input: kvIn{Kind: c.Kind, Key: c.Key, Value: string(c.Value), Flags: c.Flags}, Call: call, Output: out, Return: ret})
					mu.Unlock()
				}
			}(gi)
		}
		close(start)
		wg.Wait()
		rec.Case(true, fmt.Sprintf("lin|%d|%d|%d|%d", evid.Seed(), round, g, nops), "inmem-linearizability")
		if res, _ := porcupine.CheckOperationsVerbose(kvModel, ops, 30*time.Second); res == porcupine.Illegal {
			var hst []string
			for _, op := range ops {
				hst = append(hst, fmt.Sprintf("[%d,%d] g%d %+v -> %+v", op.Call, op.Return, op.ClientId, op.Input, op.Output))
			}
			p := rec.Violation("TestC17Linearizable", map[string]interface{}{"history": hst})
			t.Fatalf("C17: the history of %d operations by %d goroutines on the shared in-memory backend is not linearizable:\n  %s\nreplay %s", len(ops), g, strings.Join(hst, "\n  "), p)
		}
		if round < 2 {
			rec.Sample(true, map[string]interface{}{"goroutines": g, "ops_each": nops, "goroutine0": cmdsString(plans[0])})
		}
	}
}
