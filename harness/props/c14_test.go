package props

import (
	"fmt"
	"io"
	"runtime"
	"strings"
	"sync"
	"sync/atomic"
	"testing"
	"time"

	"pgregory.net/rapid"

	"verifharness/evid"
	"verifharness/fakemc"
	"verifharness/refmodel"
	"verifharness/stack"
	"verifharness/wire"
)

// TestC14 runs many client connections with private keys against one real
// stack at the same time; each must observe exactly what it would observe
// alone.  Built with -race by the driver: a race report with rend frames is a
// violation (collected from the GORACE log by the driver).
var c14Case int64

func TestC14(t *testing.T) {
	rec := evid.For("C14")
	shard, _ := evid.Shard()
	procs := []int{2, 4, 16}[shard%3]
	prev := runtime.GOMAXPROCS(procs)
	defer runtime.GOMAXPROCS(prev)
	rapid.Check(t, func(t *rapid.T) {
		shape := rapid.SampledFrom([]string{"l1only", "l1l2", "l1l2+batch"}).Draw(t, "shape")
		l1kinds := []string{"std", "std", "chunked", "chunked", "batched", "batched", "inmem"}
		if shape == "l1only" {
			l1kinds = append(l1kinds, "cluster", "cluster") // the cluster proxy's shape: per-connection node connections behind a hash ring
		}
		cfg := stack.Config{Shape: shape, Lock: rapid.SampledFrom([]string{"nolock", "lock1r", "lockNr"}).Draw(t, "lock"),
			L1: rapid.SampledFrom(l1kinds).Draw(t, "l1"), L2: "-"}
		if shape != "l1only" {
			cfg.L2 = "std"
		}
		if cfg.Lock != "nolock" {
			cfg.Conc = rapid.SampledFrom([]uint8{0, 4}).Draw(t, "conc")
			if cfg.L1 == "chunked" {
				cfg.Lock = "lock1r"
			}
		}
		binary := rapid.Bool().Draw(t, "binary")
		st := stack.Get(cfg)
		st.Reset()
		conns := rapid.SampledFrom([]int{2, 3, 8, 16, 64}).Draw(t, "connections")
		steps := rapid.IntRange(4, 14).Draw(t, "steps")
		plans := make([][]wire.Cmd, conns)
		now := nowUnix()
		for ci := range plans {
			keys := []string{fmt.Sprintf("c%d-a", ci), fmt.Sprintf("c%d-b", ci)}
			if cfg.L1 == "inmem" {
				// the in-memory backend is one map for the whole process and cannot be emptied: fresh names per case
				n := atomic.AddInt64(&c14Case, 1)
				keys = []string{fmt.Sprintf("m%d-c%d-a", n, ci), fmt.Sprintf("m%d-c%d-b", n, ci)}
			}
			opts := cmdGenOpts{Binary: binary, Keys: keys, TwoPorts: false, NoExpiry: true, MaxGetLen: 3, GetE: cfg.Shape == "l1only" && cfg.L1 != "chunked"}
			for s := 0; s < steps; s++ {
				c := genCmd(t, opts, now)
				if cfg.L1 == "cluster" {
					// the cluster handler implements set, get and gete only (the others are
					// stubs that answer success without doing anything): its domain
					switch c.Kind {
					case wire.Add, wire.Replace:
						c.Kind = wire.Set
					case wire.Append, wire.Prepend, wire.Delete, wire.Touch, wire.Gat:
						c = wire.Cmd{Kind: wire.Get, Keys: []string{c.Key}}
					}
				}
				if len(c.Value) > 5003 {
					c.Value = c.Value[:5003] // interference is the subject here, not size; the race-detector build moves large values very slowly
				}
				if cfg.L1 == "chunked" && len(c.Value) > 0 && rapid.IntRange(0, 3).Draw(t, "multiChunk") == 0 {
					c.Value = mkValue(uint32(ci*100+s), 2500)
				}
				if cfg.Shape == "l1l2+batch" {
					c.Port = rapid.IntRange(0, 1).Draw(t, "port")
				}
				plans[ci] = append(plans[ci], c)
			}
		}
		// hostile neighbours: connections that send truncated or garbled requests and
		// vanish, over and over, while the others work; nothing of that may leak into them
		hostile := rapid.SampledFrom([]int{0, 0, 1, 3}).Draw(t, "hostileConnections")
		var hostileInputs [][]byte
		for hi := 0; hi < hostile*4; hi++ {
			var stream []byte
			for j := rapid.IntRange(1, 3).Draw(t, "hostilePipeline"); j > 0; j-- {
				c := genWireCmd(t, binary)
				if len(c.Value) > 2000 {
					c.Value = c.Value[:2000]
				}
				if c.Kind == wire.Quit {
					c.Kind = wire.Noop
				}
				// private keys of nobody: keep the hostile traffic off the other connections' data
				if c.Key != "" {
					c.Key = "hostile-" + c.Key[:min(len(c.Key), 20)]
				}
				for ki := range c.Keys {
					c.Keys[ki] = "hostile-" + c.Keys[ki][:min(len(c.Keys[ki]), 20)]
				}
				stream = append(stream, encodeCmd(binary, c)...)
			}
			if rapid.Bool().Draw(t, "hostileTruncate") {
				stream = stream[:rapid.IntRange(1, len(stream)).Draw(t, "hostileCut")]
			} else {
				stream, _ = mutate(t, binary, stream)
			}
			if hugeDeclaration(binary, stream) || len(stream) == 0 {
				stream = []byte("get\r\n")
			}
			hostileInputs = append(hostileInputs, stream)
		}
		// neighbours that lose their backend connection: with one backend connection
		// per client connection (std and chunked handlers), every request naming a
		// key that starts with "poison" has the backend close that connection instead
		// of answering.  What rend then does to the neighbour is not the subject here;
		// the other connections must not notice.
		poisoned := 0
		if cfg.L1 == "std" || cfg.L1 == "chunked" {
			poisoned = rapid.SampledFrom([]int{0, 0, 1, 2}).Draw(t, "poisonedNeighbours")
		}
		var poisonInputs [][]byte
		if poisoned > 0 {
			isPoison := func(r *fakemc.Req) bool { return strings.HasPrefix(r.Key, "poison") }
			st.L1.Arm(&fakemc.Fault{Match: isPoison, Kind: fakemc.FaultCloseBefore, Repeat: true})
			defer st.L1.Disarm()
			if st.L2 != nil {
				st.L2.Arm(&fakemc.Fault{Match: isPoison, Kind: fakemc.FaultCloseBefore, Repeat: true})
				defer st.L2.Disarm()
			}
			for pi := 0; pi < 8; pi++ {
				k := fmt.Sprintf("poison-%d", pi%3)
				c := wire.Cmd{Kind: rapid.SampledFrom([]wire.Kind{wire.Touch, wire.Delete, wire.Set, wire.Get, wire.Touch, wire.Delete, wire.Append}).Draw(t, "poisonKind"), Key: k, Value: []byte("p"), Exptime: 0}
				if c.Kind == wire.Get {
					c = wire.Cmd{Kind: wire.Get, Keys: []string{k}}
				}
				poisonInputs = append(poisonInputs, encodeCmd(binary, c))
			}
		}
		stopHostile := make(chan struct{})
		var hwg sync.WaitGroup
		for pi := 0; pi < poisoned; pi++ {
			hwg.Add(1)
			go func(pi int) {
				defer hwg.Done()
				for round := 0; round < 60; round++ {
					select {
					case <-stopHostile:
						return
					default:
					}
					conn := st.Dial(0)
					conn.Write(poisonInputs[(pi*3+round)%len(poisonInputs)])
					conn.SetReadDeadline(time.Now().Add(200 * time.Millisecond))
					io.Copy(io.Discard, conn) // until rend answers with an error and/or closes
					conn.Close()
					time.Sleep(2 * time.Millisecond)
				}
			}(pi)
		}
		for hi := 0; hi < hostile; hi++ {
			hwg.Add(1)
			go func(hi int) {
				defer hwg.Done()
				for round := 0; round < 60; round++ { // bounded: every round costs the server three sockets for a moment
					select {
					case <-stopHostile:
						return
					default:
					}
					conn := st.Dial(0)
					conn.Write(hostileInputs[(hi*4+round)%len(hostileInputs)])
					time.Sleep(time.Duration(100+round%7*50) * time.Microsecond)
					conn.Close()
					time.Sleep(3 * time.Millisecond)
				}
			}(hi)
		}
		var wg sync.WaitGroup
		problems := make([]string, conns)
		var inflight, overlapped, failedCond, timedOut int64
		start := make(chan struct{})
		for ci := range plans {
			wg.Add(1)
			go func(ci int) {
				defer wg.Done()
				ses := &session{st: st, binary: binary}
				defer ses.close()
				model := refmodel.New()
				<-start
				for s, c := range plans[ci] {
					exp := model.Apply(c, nowUnix())
					if exp.Class == refmodel.Fail {
						atomic.AddInt64(&failedCond, 1)
					}
					if atomic.AddInt64(&inflight, 1) > 1 {
						atomic.AddInt64(&overlapped, 1)
					}
					got, err := ses.client(c.Port).Do(c)
					atomic.AddInt64(&inflight, -1)
					if err != nil {
						// a reply that did not arrive within two minutes: a hang if fresh
						// connections are served promptly meanwhile, else not decided here
						if err == wire.ErrTimeout && hangProbe(st, ses.client(c.Port)) {
							problems[ci] = fmt.Sprintf("connection %d step %d %s: no reply within two minutes, and still none ten seconds later, while five fresh connections were each answered within two seconds: the request hangs\nits own sequence: %s", ci, s, c, strings.Join(cmdsString(plans[ci][:s+1]), " | "))
							return
						}
						atomic.AddInt64(&timedOut, 1)
						return
					}
					if msg := compare(c, binary, exp, got); msg != "" {
						problems[ci] = fmt.Sprintf("connection %d step %d %s: %s\nits own sequence: %s", ci, s, c, msg, strings.Join(cmdsString(plans[ci][:s+1]), " | "))
						return
					}
				}
			}(ci)
		}
		close(start)
		wg.Wait()
		close(stopHostile)
		hwg.Wait()
		for _, p := range problems {
			if p != "" {
				timedOut = 0 // a decided failure outranks the undecided connections
			}
		}
		if timedOut > 0 {
			undecided(t, rec, fmt.Sprintf("C14 %s: %d connections waited more than two minutes for a reply", cfg, timedOut))
		}
		for _, p := range problems {
			if p != "" {
				hp := rec.History("TestC14", map[string]interface{}{"config": cfg.String(), "binary": binary, "connections": conns, "problem": p})
				t.Fatalf("C14 %s binary=%v %d connections x %d steps (GOMAXPROCS %d): %s (saved: %s)", cfg, binary, conns, steps, procs, p, hp)
			}
		}
		nt := overlapped > 0 && failedCond > 0
		rec.Case(nt, fmt.Sprintf("%s|%v|%d|%v|%d|%d", cfg, binary, conns, plans, hostile, poisoned), "cfg:"+cfg.String(), fmt.Sprintf("connections=%d", conns), fmt.Sprintf("gomaxprocs=%d", procs), fmt.Sprintf("hostile-neighbours=%d", hostile), fmt.Sprintf("neighbours-losing-their-backend=%d", poisoned))
		if rec.WantSample(nt) {
			rec.Sample(nt, map[string]interface{}{"config": cfg.String(), "binary": binary, "connections": conns, "steps_each": steps, "gomaxprocs": procs, "commands_in_flight_together": overlapped, "connection0": cmdsString(plans[0])})
		}
	})
}
