package props

import (
	"fmt"
	"github.com/netflix/rend/handlers"
	"strings"
	"sync"
	"sync/atomic"
	"testing"
	"time"

	"github.com/netflix/rend/handlers/inmem"
	"pgregory.net/rapid"

	"verifharness/evid"
	"verifharness/refmodel"
	"verifharness/wire"
)

var c17Prefix int64

func c17Keys() []string {
	p := atomic.AddInt64(&c17Prefix, 1)
	sh, _ := evid.Shard()
	out := make([]string, 4)
	for i := range out {
		out[i] = fmt.Sprintf("s%dc%d-%c", sh, p, 'a'+i)
	}
	return out
}

func TestC17Sequential(t *testing.T) {
	rec := evid.For("C17")
	rapid.Check(t, func(t *rapid.T) {
		// every connection of a server asks for the backend (New) and closes it when
		// the client leaves; the data is the process's, not the connection's
		h, _ := inmem.New()
		defer func() { h.Close() }()
		keys := c17Keys()
		model := refmodel.New()
		n := rapid.IntRange(1, 40).Draw(t, "steps")
		var cmds []wire.Cmd
		var fp strings.Builder
		nt := false
		for i := 0; i < n; i++ {
			if rapid.IntRange(0, 9).Draw(t, "reconnect") == 0 {
				h.Close()
				h, _ = inmem.New()
				cmds = append(cmds, wire.Cmd{Kind: wire.RawBytes, Raw: []byte("[client reconnects: Close, New]")})
				fp.WriteString("|R")
			}
			now := nowUnix()
			kind := rapid.SampledFrom([]wire.Kind{wire.Set, wire.Add, wire.Add, wire.Replace, wire.Append, wire.Prepend, wire.Delete, wire.Delete, wire.Touch, wire.Get, wire.Gat}).Draw(t, "kind")
			c := wire.Cmd{Kind: kind}
			ki := rapid.IntRange(0, len(keys)-1).Draw(t, "key")
			if kind == wire.Get {
				for j := rapid.IntRange(1, 4).Draw(t, "nkeys"); j > 0; j-- {
					c.Keys = append(c.Keys, keys[rapid.IntRange(0, len(keys)-1).Draw(t, "gkey")])
				}
			} else {
				c.Key = keys[ki]
			}
			switch kind {
			case wire.Set, wire.Add, wire.Replace:
				c.Value, c.Flags = genValue(t, "val"), genFlags(t, "flags")
				c.Exptime = rapid.SampledFrom([]uint32{0, 0, 1000, 100000}).Draw(t, "ttl")
			case wire.Append, wire.Prepend:
				c.Value = genValue(t, "val")
			case wire.Touch, wire.Gat:
				c.Exptime = rapid.SampledFrom([]uint32{0, 1000, 100000}).Draw(t, "ttl")
			}
			cmds = append(cmds, c)
			fmt.Fprintf(&fp, "|%d:%d:%d", c.Kind, ki, len(c.Value))
			live := model.Live(c.Key, now) != nil
			if (kind == wire.Add && live) || (kind == wire.Delete && !live) {
				nt = true
			}
			exp := model.Apply(c, now)
			got, _ := execHandler(h, c, 0)
			if msg := compareH(c, exp, got); msg != "" {
				t.Fatalf("C17 step %d %s: %s\nsequence: %s", i, c, msg, strings.Join(cmdsString(cmds), " | "))
			}
		}
		// final scan
		now := nowUnix()
		for _, k := range keys {
			c := wire.Cmd{Kind: wire.Get, Keys: []string{k}}
			if msg := compareH(c, model.Apply(c, now), first(execHandler(h, c, 0))); msg != "" {
				t.Fatalf("C17 final scan of %q: %s\nsequence: %s", k, msg, strings.Join(cmdsString(cmds), " | "))
			}
		}
		rec.Case(nt, fp.String(), "sequential")
		if rec.WantSample(nt) {
			rec.Sample(nt, map[string]interface{}{"commands": cmdsString(cmds)})
		}
	})
}

func first(r hres, _ bool) hres { return r }

// TestC17Expiry: entries stored with TTL 1 must behave as absent after two
// seconds; one real sleep is amortised over a batch of generated cases.
func TestC17Expiry(t *testing.T) {
	rec := evid.For("C17")
	h, _ := inmem.New()
	kinds := []wire.Kind{wire.Get, wire.Gat, wire.Add, wire.Replace, wire.Append, wire.Prepend, wire.Delete, wire.Touch, wire.Set}
	type cse struct {
		key   string
		probe wire.Kind
		via   wire.Kind
	}
	var cases []cse
	for _, via := range []wire.Kind{wire.Set, wire.Add, wire.Touch, wire.Gat} {
		for _, probe := range kinds {
			k := c17Keys()[0]
			switch via {
			case wire.Set, wire.Add:
				execHandler(h, wire.Cmd{Kind: via, Key: k, Value: []byte("soon gone"), Flags: 3, Exptime: 1}, 0)
			default:
				execHandler(h, wire.Cmd{Kind: wire.Set, Key: k, Value: []byte("soon gone"), Flags: 3}, 0)
				execHandler(h, wire.Cmd{Kind: via, Key: k, Exptime: 1}, 0)
			}
			cases = append(cases, cse{k, probe, via})
		}
	}
	time.Sleep(2100 * time.Millisecond)
	for _, c := range cases {
		model := refmodel.New() // the key is absent
		cmd := wire.Cmd{Kind: c.probe, Key: c.key, Value: []byte("new"), Flags: 9}
		if c.probe == wire.Get {
			cmd = wire.Cmd{Kind: wire.Get, Keys: []string{c.key}}
		}
		now := nowUnix()
		exp := model.Apply(cmd, now)
		// with a watchdog: a command that never returns (a lock of the shared backend
		// left held) is as bad for every connection as a wrong answer
		run := func(cmd wire.Cmd) (hres, bool) {
			done := make(chan hres, 1)
			go func() { r, _ := execHandler(h, cmd, 0); done <- r }()
			select {
			case r := <-done:
				return r, true
			case <-time.After(hangBound()):
				noteHang()
				return hres{}, false
			}
		}
		got, ok := run(cmd)
		msg := ""
		if !ok {
			msg = "the command never returned"
		} else {
			msg = compareH(cmd, exp, got)
		}
		if msg == "" {
			// and afterwards the state is what the model says
			g := wire.Cmd{Kind: wire.Get, Keys: []string{c.key}}
			if after, ok := run(g); !ok {
				msg = "state after the probe: the following get never returned (the backend is wedged)"
			} else if msg = compareH(g, model.Apply(g, now), after); msg != "" {
				msg = "state after the probe: " + msg
			}
		}
		rec.Case(true, fmt.Sprintf("expiry|%d|%d", c.via, c.probe), "expired-key-operation")
		if msg != "" {
			p := rec.Violation("TestC17Expiry", map[string]interface{}{"ttl_set_via": c.via.String(), "probe": c.probe.String()})
			t.Errorf("C17 expiry: entry given TTL 1 via %s, 2.1s later %s: %s; replay %s", c.via, c.probe, msg, p)
			if strings.Contains(msg, "never returned") {
				return // everything after this would only wait for the same lock
			}
		}
	}
}

// TestC17Concurrent shares the singleton between many goroutines.  A Go
// "fatal error: concurrent map ..." kills the process; the driver reports it.
// Run from the race-enabled binary so that data races are reported too.
func TestC17Concurrent(t *testing.T) {
	rec := evid.For("C17")
	h, _ := inmem.New()
	rounds := 12
	if thorough() {
		rounds = 200
	}
	seed := uint32(evid.Seed())
	// entries that have expired but are still physically stored: the first
	// reads after expiry happen concurrently in every round (one shared sleep)
	expired := make([][]string, rounds)
	for round := range expired {
		base := c17Keys()[0]
		for i := 0; i < 48; i++ {
			k := fmt.Sprintf("%s-exp%d", base, i)
			expired[round] = append(expired[round], k)
			execHandler(h, wire.Cmd{Kind: wire.Set, Key: k, Value: []byte("soon gone"), Exptime: 1}, 0)
		}
	}
	time.Sleep(2100 * time.Millisecond)
	for round := 0; round < rounds; round++ {
		g := []int{2, 4, 8, 16, 32}[round%5]
		shared := c17Keys()
		var wg sync.WaitGroup
		var bad atomic.Value
		var overlap int64
		var writers int64
		for w := 0; w < g; w++ {
			wg.Add(1)
			go func(w int) {
				defer wg.Done()
				priv := fmt.Sprintf("%s-priv%d", shared[0], w)
				x := seed*7919 + uint32(round*131+w)
				for i, k := range expired[round] {
					// every goroutine reads every expired entry, alternating the read flavour
					var res hres
					if (i+w)%2 == 0 {
						res, _ = execHandler(h, wire.Cmd{Kind: wire.Get, Keys: []string{k, priv}}, 0)
					} else {
						res, _ = execHandler(h, wire.Cmd{Kind: wire.GetE, Keys: []string{k}}, 0)
					}
					if res.Err != nil || res.Hits[0] != nil {
						bad.Store(fmt.Sprintf("goroutine %d: expired key %q served: %+v", w, k, res))
					}
				}
				for i := 0; i < 300; i++ {
					x = x*1664525 + 1013904223
					r := (x >> 16) % 10
					switch {
					case r < 3: // read of a missing key (never written)
						if atomic.LoadInt64(&writers) > 0 {
							atomic.AddInt64(&overlap, 1)
						}
						execHandler(h, wire.Cmd{Kind: wire.Get, Keys: []string{fmt.Sprintf("%s-missing%d", shared[1], x%5)}}, 0)
					case r < 5:
						execHandler(h, wire.Cmd{Kind: wire.Get, Keys: []string{shared[x%4], priv}}, 0)
					case r < 7:
						atomic.AddInt64(&writers, 1)
						execHandler(h, wire.Cmd{Kind: wire.Set, Key: shared[x%4], Value: mkValue(x, 20)}, 0)
						atomic.AddInt64(&writers, -1)
					case r < 8:
						atomic.AddInt64(&writers, 1)
						execHandler(h, wire.Cmd{Kind: wire.Delete, Key: shared[x%4]}, 0)
						atomic.AddInt64(&writers, -1)
					case r < 9 && i%2 == 0:
						// commands that read and re-store an existing entry (get-and-touch, touch,
						// append, prepend) on the private key, next to everybody else's reads
						atomic.AddInt64(&writers, 1)
						switch x % 4 {
						case 0:
							execHandler(h, wire.Cmd{Kind: wire.Gat, Key: priv, Exptime: 1000}, 0)
						case 1:
							execHandler(h, wire.Cmd{Kind: wire.Touch, Key: priv, Exptime: 1000}, 0)
						case 2:
							execHandler(h, wire.Cmd{Kind: wire.Gat, Key: shared[x%4], Exptime: 1000}, 0)
						default:
							execHandler(h, wire.Cmd{Kind: wire.GetE, Keys: []string{priv, shared[x%4]}}, 0)
						}
						atomic.AddInt64(&writers, -1)
					default: // private key: write then read back
						v := mkValue(x, 30)
						atomic.AddInt64(&writers, 1)
						execHandler(h, wire.Cmd{Kind: wire.Set, Key: priv, Value: v, Flags: x}, 0)
						atomic.AddInt64(&writers, -1)
						got, _ := execHandler(h, wire.Cmd{Kind: wire.Get, Keys: []string{priv}}, 0)
						if got.Err != nil || got.Hits[0] == nil || string(got.Hits[0].Value) != string(v) || got.Hits[0].Flags != x {
							bad.Store(fmt.Sprintf("goroutine %d: private key %q read back wrong: %+v", w, priv, got))
						}
					}
				}
			}(w)
		}
		wg.Wait()
		if b := bad.Load(); b != nil {
			p := rec.Violation("TestC17Concurrent", map[string]interface{}{"round": round, "goroutines": g, "problem": b})
			t.Fatalf("C17 concurrent: %v; replay %s", b, p)
		}
		rec.Case(overlap > 0, fmt.Sprintf("conc|%d|%d|%d", g, round, seed), fmt.Sprintf("goroutines=%d", g))
		if round < 3 {
			rec.Sample(true, map[string]interface{}{"goroutines": g, "ops_per_goroutine": 300, "missing_key_reads_overlapping_writes": overlap})
		}
	}
}

// TestC17FreshNew must run as the first user of the backend in its process:
// the very first inmem.New calls happen concurrently (as the accept loops of
// the main and the batch port make them), and every caller must get the one
// shared instance -- what one stores, all others read.
func TestC17FreshNew(t *testing.T) {
	rec := evid.For("C17")
	const n = 16
	hs := make([]handlers.Handler, n)
	start := make(chan struct{})
	var wg sync.WaitGroup
	for i := 0; i < n; i++ {
		wg.Add(1)
		go func(i int) {
			defer wg.Done()
			<-start
			hs[i], _ = inmem.New()
		}(i)
	}
	close(start)
	wg.Wait()
	for i := 0; i < n; i++ {
		execHandler(hs[i], wire.Cmd{Kind: wire.Set, Key: fmt.Sprintf("fresh-%d", i), Value: []byte(fmt.Sprintf("stored through handle %d", i)), Flags: uint32(i)}, 0)
	}
	for i := 0; i < n; i++ {
		for j := 0; j < n; j++ {
			res, _ := execHandler(hs[i], wire.Cmd{Kind: wire.Get, Keys: []string{fmt.Sprintf("fresh-%d", j)}}, 0)
			if res.Err != nil || res.Hits[0] == nil || string(res.Hits[0].Value) != fmt.Sprintf("stored through handle %d", j) {
				p := rec.Violation("TestC17FreshNew", map[string]interface{}{"reader_handle": i, "writer_handle": j})
				t.Fatalf("C17 fresh New: what was stored through the handle of concurrent first caller %d is not visible through the handle of caller %d (%+v): the backend is not one shared instance; replay %s", j, i, res, p)
			}
		}
	}
	rec.Case(true, fmt.Sprintf("freshnew|%d", evid.Seed()), "concurrent-first-New")
	rec.Sample(true, map[string]interface{}{"concurrent_first_callers_of_New": n})
}
