package props

import (
	"fmt"
	"strings"
	"testing"

	"verifharness/wire"
)

// Native (coverage-guided) fuzz targets, used by the thorough tier of C07 and
// C11.  The semantic oracle is inside the target.

func fuzzSeedsBinary() [][]byte {
	var out [][]byte
	for _, c := range []wire.Cmd{
		{Kind: wire.Set, Key: "k", Value: []byte("value"), Flags: 1, Exptime: 2, Opaque: 3},
		{Kind: wire.Add, Key: "key2", Value: nil, Quiet: true},
		{Kind: wire.Append, Key: "k", Value: []byte("x")},
		{Kind: wire.Get, Keys: []string{"a", "b", "c"}},
		{Kind: wire.Get, Keys: []string{"a", "b"}, NoopEnd: true},
		{Kind: wire.GetE, Keys: []string{"a"}},
		{Kind: wire.Gat, Key: "k", Exptime: 9}, {Kind: wire.Touch, Key: "k", Exptime: 9}, {Kind: wire.Delete, Key: "k"},
		{Kind: wire.Noop}, {Kind: wire.Version}, {Kind: wire.Stat}, {Kind: wire.Quit},
	} {
		out = append(out, wire.EncodeBinary(c))
	}
	// hostile constants: contradictory and huge length fields
	out = append(out, binHeader(0x01, 5, 8, 3, 0), binHeader(0x01, 65535, 255, 0xffffffff, 0), binHeader(0x0e, 250, 0, 1, 0), binHeader(0x09, 0, 0, 0, 0), binHeader(0x11, 1, 8, 9, 0xffffffff))
	return out
}

func FuzzC11Binary(f *testing.F) {
	for _, s := range fuzzSeedsBinary() {
		f.Add(s)
	}
	f.Fuzz(func(t *testing.T, data []byte) {
		// keep consistently declared bodies small enough to execute cheaply: a frame
		// anywhere in the input that consistently declares hundreds of megabytes
		// makes the parser allocate them (which the property allows) and sixteen
		// workers doing so at once run the machine out of memory
		if hugeDeclaration(true, data) {
			t.Skip()
		}
		measureAlloc = len(data)%8 == 0 // allocation is measured on an eighth of the inputs (stop-the-world cost)
		rep := parseAll(true, data)
		msg := ""
		switch {
		case rep.Panic != "":
			msg = "parser panicked: " + rep.Panic
		case rep.NoProg:
			msg = fmt.Sprintf("Parse made no progress (call %d): it would spin", rep.Calls)
		default:
			msg = allocProblem(true, data, rep)
		}
		if msg != "" {
			t.Fatalf("C11 fuzz binary input %x: %s", data, msg)
		}
	})
}

func FuzzC11Text(f *testing.F) {
	for _, s := range []string{"set k 0 0 5\r\nhello\r\n", "get a b c\r\n", "delete k\r\n", "touch k 10\r\n", "append k 0 0 1\r\nx\r\n", "set k 0 0 -1\r\n", "set k 0 0 99999999999\r\n", "get\r\n", "quit\r\n", "stats\r\n", "version\r\n", "noop\r\n", "\r\n", "set  k 0 0 1\r\n"} {
		f.Add([]byte(s))
	}
	f.Fuzz(func(t *testing.T, data []byte) {
		if textDeclared(data) > 1<<24 {
			t.Skip()
		}
		measureAlloc = len(data)%8 == 0
		rep := parseAll(false, data)
		msg := ""
		switch {
		case rep.Panic != "":
			msg = "parser panicked: " + rep.Panic
		case rep.NoProg:
			msg = fmt.Sprintf("Parse made no progress (call %d): it would spin", rep.Calls)
		default:
			msg = allocProblem(false, data, rep)
		}
		if msg != "" {
			t.Fatalf("C11 fuzz text input %q: %s", data, msg)
		}
	})
}

// FuzzC07 is structure aware: the fuzz bytes are decoded into a protocol
// choice, a pipeline of well-formed requests and a segmentation; the oracle
// is the round trip with byte accounting.
func FuzzC07(f *testing.F) {
	f.Add([]byte{1, 3, 0, 1, 2, 3, 4, 5, 6, 7, 8, 9, 10, 11, 12, 13, 14, 15, 16})
	f.Add([]byte{0, 2, 7, 7, 7, 7, 9, 9, 9, 200, 100, 50, 25, 12, 6, 3})
	f.Add([]byte("\x01\x05getgetsetaddnoop\x00\x01\x02\x03"))
	f.Fuzz(func(t *testing.T, data []byte) {
		if len(data) < 4 {
			t.Skip()
		}
		pos := 0
		next := func() byte {
			b := data[pos%len(data)]
			pos++
			return b
		}
		bin := next()&1 == 1
		n := 1 + int(next())%6
		var cmds []wire.Cmd
		var encs [][]byte
		total := 0
		key := func() string {
			l := 1 + int(next())%250
			if next()&3 != 0 {
				l = 1 + l%8
			}
			b := mkValue(uint32(next())<<8|uint32(next()), l)
			if !bin {
				for i := range b {
					b[i] = 0x21 + b[i]%(0x7f-0x21)
				}
			}
			return string(b)
		}
		val := func() []byte {
			l := int(next())
			switch next() & 7 {
			case 0:
				l = 0
			case 1:
				l = 4090 + l%12
			case 2:
				l = 65536
			}
			return mkValue(uint32(next()), l)
		}
		u32 := func() uint32 {
			return uint32(next())<<24 | uint32(next())<<16 | uint32(next())<<8 | uint32(next())
		}
		for i := 0; i < n; i++ {
			kinds := []wire.Kind{wire.Set, wire.Add, wire.Replace, wire.Append, wire.Prepend, wire.Delete, wire.Touch, wire.Get, wire.Noop, wire.Version, wire.Stat}
			if bin {
				kinds = append(kinds, wire.Gat, wire.GetE)
			}
			c := wire.Cmd{Kind: kinds[int(next())%len(kinds)]}
			if bin {
				c.Opaque = u32() &^ 0xff
			}
			switch c.Kind {
			case wire.Set, wire.Add, wire.Replace:
				c.Key, c.Value, c.Flags, c.Exptime = key(), val(), u32(), u32()
				c.Quiet = bin && next()&1 == 1
			case wire.Append, wire.Prepend:
				c.Key, c.Value = key(), val()
				if bin {
					c.Quiet = next()&1 == 1
				} else {
					c.Flags, c.Exptime = u32(), u32()
				}
			case wire.Delete:
				c.Key = key()
			case wire.Touch, wire.Gat:
				c.Key, c.Exptime = key(), u32()
			case wire.Get, wire.GetE:
				for j := 1 + int(next())%5; j > 0; j-- {
					c.Keys = append(c.Keys, key())
				}
				c.NoopEnd = bin && next()&1 == 1
			}
			cmds = append(cmds, c)
			e := encodeCmd(bin, c)
			encs = append(encs, e)
			total += len(e)
		}
		var cuts []int
		p := 0
		for k := int(next()) % 48; k > 0 && p < total; k-- {
			p += 1 + int(next())%(1+total/4)
			if p < total {
				cuts = append(cuts, p)
			}
		}
		if msg := parsePipeline(bin, cmds, encs, cuts); msg != "" {
			t.Fatalf("C07 fuzz binary=%v cuts=%v: %s\npipeline: %s", bin, trunc(cuts), msg, strings.Join(cmdsString(cmds), " | "))
		}
	})
}
