package props

import (
	"bufio"
	"fmt"
	"net"
	"os"
	"runtime"
	"strings"
	"testing"
	"time"

	"verifharness/evid"
	"verifharness/fakemc"
	"verifharness/stack"
	"verifharness/wire"
)

type c15Stream struct {
	Name   string
	Cmds   []wire.Cmd
	Binary bool
}

func c15Streams(binary, big bool) []c15Stream {
	val := mkValue(7, 60)
	bigVal := mkValue(9, 1500)
	if big {
		bigVal = mkValue(9, 2600)
	}
	var out []c15Stream
	add := func(name string, cmds ...wire.Cmd) { out = append(out, c15Stream{name, cmds, binary}) }
	opq := uint32(500)
	o := func(c wire.Cmd) wire.Cmd {
		if binary {
			opq += 16
			c.Opaque = opq
		}
		return c
	}
	add("set", o(wire.Cmd{Kind: wire.Set, Key: "ka", Value: val, Flags: 3}))
	add("set-big", o(wire.Cmd{Kind: wire.Set, Key: "kb", Value: bigVal, Flags: 4}))
	// a value beyond 64 KiB (parsers and handlers may treat such bodies differently)
	add("set-huge", o(wire.Cmd{Kind: wire.Set, Key: "kh", Value: mkValue(11, 70000), Flags: 5}))
	add("add", o(wire.Cmd{Kind: wire.Add, Key: "kn", Value: val}))
	add("replace", o(wire.Cmd{Kind: wire.Replace, Key: "ka", Value: val}))
	add("append", o(wire.Cmd{Kind: wire.Append, Key: "ka", Value: []byte("tail")}))
	add("prepend", o(wire.Cmd{Kind: wire.Prepend, Key: "ka", Value: []byte("head")}))
	add("delete", o(wire.Cmd{Kind: wire.Delete, Key: "ka"}))
	add("touch", o(wire.Cmd{Kind: wire.Touch, Key: "ka", Exptime: 100}))
	add("get", o(wire.Cmd{Kind: wire.Get, Keys: []string{"ka"}}))
	add("get-multi", o(wire.Cmd{Kind: wire.Get, Keys: []string{"ka", "kb", "kn", "ka"}}))
	add("quit", o(wire.Cmd{Kind: wire.Quit}))
	add("pipeline", o(wire.Cmd{Kind: wire.Set, Key: "ka", Value: val}), o(wire.Cmd{Kind: wire.Get, Keys: []string{"ka", "kb"}}), o(wire.Cmd{Kind: wire.Delete, Key: "kb"}), o(wire.Cmd{Kind: wire.Noop}), o(wire.Cmd{Kind: wire.Version}))
	add("set-then-quit", o(wire.Cmd{Kind: wire.Set, Key: "ka", Value: val}), o(wire.Cmd{Kind: wire.Quit}), o(wire.Cmd{Kind: wire.Set, Key: "ka", Value: []byte("after quit")}))
	if !binary {
		// empty and blank lines between and after commands (what a person at a terminal sends)
		add("blank-line-after-get", wire.Cmd{Kind: wire.Get, Keys: []string{"ka"}}, wire.Cmd{Kind: wire.RawBytes, Raw: []byte("\r\n")})
		add("blank-lines", wire.Cmd{Kind: wire.RawBytes, Raw: []byte("\r\n")}, wire.Cmd{Kind: wire.RawBytes, Raw: []byte(" \r\n")}, wire.Cmd{Kind: wire.Get, Keys: []string{"ka", "kb"}}, wire.Cmd{Kind: wire.RawBytes, Raw: []byte("\r\n \r")}, wire.Cmd{Kind: wire.RawBytes, Raw: []byte("\n\n")})
	}
	if binary {
		add("gat", o(wire.Cmd{Kind: wire.Gat, Key: "ka", Exptime: 100}))
		add("quitq", o(wire.Cmd{Kind: wire.Set, Key: "ka", Value: val, Quiet: true}), o(wire.Cmd{Kind: wire.Quit, Quiet: true}), o(wire.Cmd{Kind: wire.Noop}))
		add("gete", o(wire.Cmd{Kind: wire.GetE, Keys: []string{"ka"}}))
		add("gete-multi", o(wire.Cmd{Kind: wire.GetE, Keys: []string{"kb", "kn", "ka"}, NoopEnd: true}))
		add("quiet-get-batch-noop", o(wire.Cmd{Kind: wire.Get, Keys: []string{"ka", "kn", "kb"}, NoopEnd: true}))
		add("quiet-get-batch-get", o(wire.Cmd{Kind: wire.Get, Keys: []string{"kb", "kn", "ka"}}))
		add("quiet-sets", o(wire.Cmd{Kind: wire.Set, Key: "ka", Value: val, Quiet: true}), o(wire.Cmd{Kind: wire.Add, Key: "ka", Value: val, Quiet: true}), o(wire.Cmd{Kind: wire.Noop}))
	}
	return out
}

type c15Case struct {
	Cfg    stack.Config `json:"cfg"`
	Port   int          `json:"port"`
	Binary bool         `json:"binary"`
	Stream string       `json:"stream"`
	Prefix int          `json:"prefix"`
	// Overlap: a second, idle client is connected while this one disconnects
	Overlap bool `json:"overlap"`
}

// quiesce waits until the fakes' open connections and the goroutine count are
// back at the baseline; returns a description of what is still held, or "".
func c15Quiesce(st *stack.Stack, baseL1, baseL2, baseG int, limit time.Duration) string {
	deadline := time.Now().Add(limit)
	for {
		l1 := st.L1.OpenConns()
		l2 := 0
		if st.L2 != nil {
			l2 = st.L2.OpenConns()
		}
		g := runtime.NumGoroutine()
		if l1 <= baseL1 && l2 <= baseL2 && g <= baseG {
			return ""
		}
		if time.Now().After(deadline) {
			return fmt.Sprintf("L1 backend connections %d (baseline %d), L2 %d (baseline %d), goroutines %d (baseline %d)", l1, baseL1, l2, baseL2, g, baseG)
		}
		time.Sleep(200 * time.Microsecond)
	}
}

// runC15Overlap: a second client B is accepted (and stays silent) after A
// connected and before A sends anything; A then sends the prefix and vanishes.
// Exactly A's backend connections must go away, B must still be served by its
// own, and after B leaves everything is released.
func runC15Overlap(c c15Case, st *stack.Stack, stream []byte, baseL1, baseL2, baseG int) string {
	accepts := func() (int, int) {
		a2 := 0
		if st.L2 != nil {
			a2 = st.L2.Accepts()
		}
		return st.L1.Accepts(), a2
	}
	waitAcc := func(w1, w2 int) {
		for i := 0; i < 20000; i++ {
			g1, g2 := accepts()
			if g1 >= w1 && (st.L2 == nil || g2 >= w2) {
				return
			}
			time.Sleep(100 * time.Microsecond)
		}
	}
	per := c15PerClient(st) // backend connections per client on L1
	a1, a2 := accepts()
	connA := st.Dial(c.Port)
	waitAcc(a1+per, a2+1)
	connB := st.Dial(c.Port)
	waitAcc(a1+2*per, a2+2)
	if c.Prefix > 0 {
		connA.Write(stream[:c.Prefix])
	}
	connA.Close()
	// A's backend connections (one per tier) must be closed, B's must stay
	deadline := time.Now().Add(hangBound())
	for {
		l1 := st.L1.OpenConns()
		l2 := 0
		if st.L2 != nil {
			l2 = st.L2.OpenConns()
		}
		wantL2 := baseL2
		if st.L2 != nil {
			wantL2 = baseL2 + 1
		}
		if l1 == baseL1+per && l2 == wantL2 {
			break
		}
		if time.Now().After(deadline) {
			connB.Close()
			return fmt.Sprintf("with a second, idle client connected: the bound after client A closed at byte %d, L1 has %d open backend connections (want %d: only B's), L2 %d (want %d)", c.Prefix, l1, baseL1+per, l2, wantL2)
		}
		time.Sleep(200 * time.Microsecond)
	}
	clB := wire.NewClient(connB, true)
	clB.Timeout = hangBound()
	v := mkValue(uint32(c.Prefix), 25)
	o1, e1 := clB.Do(wire.Cmd{Kind: wire.Set, Key: "kov", Value: v, Flags: 3})
	o2, e2 := clB.Do(wire.Cmd{Kind: wire.Get, Keys: []string{"kov"}})
	clB.Close()
	if e1 != nil || e2 != nil || o1.Class != wire.OK || len(o2.Hits) != 1 || string(o2.Hits[0].Value) != string(v) {
		return fmt.Sprintf("the idle client B was not served correctly after client A disconnected at byte %d: set %v %s / get %v %s", c.Prefix, e1, o1, e2, o2)
	}
	if held := c15Quiesce(st, baseL1, baseL2, baseG, 20*time.Second); held != "" {
		if held2 := c15Quiesce(st, baseL1, baseL2, baseG, c15Second()); held2 != "" {
			return "after both clients left: " + held2
		}
	}
	return ""
}

// c15PerClient: the number of L1 backend connections the server opens per
// client (the cluster handler connects to each of its two node names).
func c15PerClient(st *stack.Stack) int {
	if st.Cfg.L1 == "cluster" {
		return 2
	}
	return 1
}

func runC15(c c15Case, st *stack.Stack, stream []byte, baseL1, baseL2, baseG int) string {
	if c.Overlap {
		return runC15Overlap(c, st, stream, baseL1, baseL2, baseG)
	}
	a1, a2 := st.L1.Accepts(), 0
	if st.L2 != nil {
		a2 = st.L2.Accepts()
	}
	conn := st.Dial(c.Port)
	// the server opens this client's backend connections when it accepts the
	// client; wait for that, otherwise "everything released" would be
	// trivially true before the server has even noticed the connection
	for i := 0; i < 20000 && (st.L1.Accepts() < a1+c15PerClient(st) || (st.L2 != nil && st.L2.Accepts() < a2+1)); i++ {
		time.Sleep(100 * time.Microsecond)
	}
	if c.Prefix > 0 {
		if _, err := conn.Write(stream[:c.Prefix]); err != nil {
			conn.Close()
			return "" // server already closed (e.g. after quit): nothing to check beyond release
		}
	}
	// give the server a moment to be in the middle of the request, then vanish
	if c.Prefix%3 == 0 {
		time.Sleep(50 * time.Microsecond)
	}
	conn.Close()
	if held := c15Quiesce(st, baseL1, baseL2, baseG, 20*time.Second); held != "" {
		// second, longer wait before calling it a leak
		if held2 := c15Quiesce(st, baseL1, baseL2, baseG, c15Second()); held2 != "" {
			var dump [1 << 16]byte
			n := runtime.Stack(dump[:], true)
			return fmt.Sprintf("more than a minute after the client closed its connection at byte %d of the stream, still held: %s; goroutines:\n%s", c.Prefix, held2, dump[:n])
		}
	}
	// Two fresh clients whose requests interleave: X's request header arrives in
	// its own segment, Y's complete request is served meanwhile, then the rest of
	// X's request.  Whatever the vanished client left behind (e.g. in shared
	// object pools) must not leak into either of them.
	{
		x := wire.NewClient(st.Dial(c.Port), true)
		y := wire.NewClient(st.Dial(c.Port), true)
		x.Timeout, y.Timeout = hangBound(), hangBound()
		xv := mkValue(uint32(c.Prefix)+77, 33)
		enc := wire.EncodeBinary(wire.Cmd{Kind: wire.Set, Key: "kx", Value: xv, Flags: 9, Opaque: 0xA1A1A1A1})
		x.C.Write(enc[:24])
		time.Sleep(150 * time.Microsecond)
		oy, ey := y.Do(wire.Cmd{Kind: wire.Get, Keys: []string{"kn-absent"}, Opaque: 0xB2B2B2B0})
		x.C.Write(enc[24:])
		x.C.SetReadDeadline(time.Now().Add(hangBound()))
		rx, ex := wire.ReadBinReply(x.R)
		ox, egx := x.Do(wire.Cmd{Kind: wire.Get, Keys: []string{"kx"}})
		x.Close()
		y.Close()
		if ey != nil || oy.Class != wire.OK || len(oy.Hits) != 0 || len(oy.Problems) > 0 {
			return fmt.Sprintf("after the disconnect at byte %d, a fresh client's get (interleaved with another client's request) was answered %v %s", c.Prefix, ey, oy)
		}
		if ex != nil || rx.Opaque != 0xA1A1A1A1 || rx.Status != 0 {
			return fmt.Sprintf("after the disconnect at byte %d, a fresh client's set (opaque 0xa1a1a1a1, header and body in separate segments, another client served in between) was answered %v %s", c.Prefix, ex, rx)
		}
		if egx != nil || len(ox.Hits) != 1 || string(ox.Hits[0].Value) != string(xv) || ox.Hits[0].Flags != 9 {
			return fmt.Sprintf("after the disconnect at byte %d, the value stored by the interleaved set reads back as %v %s", c.Prefix, egx, ox)
		}
	}
	// a fresh client operates on the same keys: no stuck lock, served per model
	cl := wire.NewClient(st.Dial(c.Port), true)
	cl.Timeout = hangBound()
	defer cl.Close()
	for i, k := range []string{"ka", "kb", "kn"} {
		v := mkValue(uint32(c.Prefix+i), 30)
		o1, e1 := cl.Do(wire.Cmd{Kind: wire.Set, Key: k, Value: v, Flags: uint32(i)})
		if e1 != nil || o1.Class != wire.OK || len(o1.Problems) > 0 {
			return fmt.Sprintf("fresh client after the disconnect at byte %d: set %q: %v %s", c.Prefix, k, e1, o1)
		}
	}
	o, err := cl.Do(wire.Cmd{Kind: wire.Get, Keys: []string{"ka", "kb", "kn"}})
	if err != nil || o.Class != wire.OK || len(o.Hits) != 3 || len(o.Problems) > 0 {
		return fmt.Sprintf("fresh client after the disconnect at byte %d: get: %v %s", c.Prefix, err, o)
	}
	for _, h := range o.Hits {
		i := map[string]int{"ka": 0, "kb": 1, "kn": 2}[h.Key]
		if string(h.Value) != string(mkValue(uint32(c.Prefix+i), 30)) || h.Flags != uint32(i) {
			return fmt.Sprintf("fresh client after the disconnect at byte %d: get %q returned %s flags %d", c.Prefix, h.Key, short(h.Value), h.Flags)
		}
	}
	cl.Close()
	if held := c15Quiesce(st, baseL1, baseL2, baseG, 20*time.Second); held != "" {
		return "after the fresh client closed: " + held
	}
	return ""
}

func c15Configs() []c10Cfg {
	var out []c10Cfg
	for _, l1 := range []string{"std", "chunked"} {
		for _, lock := range []string{"nolock", "lock1r"} {
			out = append(out,
				c10Cfg{stack.Config{Shape: "l1only", Lock: lock, L1: l1, L2: "-"}, 0},
				c10Cfg{stack.Config{Shape: "l1l2+batch", Lock: lock, L1: l1, L2: "std"}, 0},
				c10Cfg{stack.Config{Shape: "l1l2+batch", Lock: lock, L1: l1, L2: "std"}, 1},
			)
		}
	}
	// the cluster proxy's shape (app/memcached_cluster_proxy.go): L1Only over the cluster handler
	out = append(out, c10Cfg{stack.Config{Shape: "l1only", Lock: "nolock", L1: "cluster", L2: "-"}, 0})
	return out
}

func c15Baseline(st *stack.Stack, port int) (int, int, int) {
	// warm up: one connection that comes and goes
	cl := wire.NewClient(st.Dial(port), true)
	cl.Do(wire.Cmd{Kind: wire.Noop})
	cl.Close()
	time.Sleep(20 * time.Millisecond)
	var g int
	// settle: every earlier client's backend connections are gone and the goroutine
	// count stands still.  Normally a few milliseconds; on a machine that is busy
	// with other work the server may need seconds to notice a closed client, and a
	// baseline taken too early would make the next case expect a connection too many.
	for i := 0; i < 15000; i++ {
		g = runtime.NumGoroutine()
		time.Sleep(2 * time.Millisecond)
		if runtime.NumGoroutine() == g && st.L1.OpenConns() == 0 && (st.L2 == nil || st.L2.OpenConns() == 0) {
			break
		}
	}
	l2 := 0
	if st.L2 != nil {
		l2 = st.L2.OpenConns()
	}
	return st.L1.OpenConns(), l2, g
}

func TestC15(t *testing.T) {
	rec := evid.For("C15")
	shard, shards := evid.Shard()
	idx := 0
	cases := 0
	for _, cc := range c15Configs() {
		if only := os.Getenv("VERIF_C15_ONLY"); only != "" && cc.Cfg.L1 != only { // development aid
			continue
		}
		for _, binary := range []bool{true, false} {
			for _, s := range c15Streams(binary, cc.Cfg.L1 == "chunked") {
				idx++
				if idx%shards != shard {
					continue
				}
				st := stack.Get(cc.Cfg)
				st.Reset()
				// prepared state so that hits and appends have something to work on
				setup := wire.NewClient(st.Dial(0), true)
				setup.Do(wire.Cmd{Kind: wire.Set, Key: "ka", Value: []byte("prepared-a"), Flags: 1})
				setup.Do(wire.Cmd{Kind: wire.Set, Key: "kb", Value: mkValue(3, 1300), Flags: 2})
				setup.Close()
				baseL1, baseL2, baseG := c15Baseline(st, cc.Port)
				var stream []byte
				var bounds []int
				for _, cmd := range s.Cmds {
					stream = append(stream, encodeCmd(binary, cmd)...)
					bounds = append(bounds, len(stream))
				}
				isBound := map[int]bool{0: true}
				for _, b := range bounds {
					isBound[b] = true
				}
				for p := 0; p <= len(stream); p++ {
					if !thorough() && len(stream) > 400 && p > 64 && p < len(stream)-64 && p%9 != 0 {
						continue // quick: thin out the middle of large values
					}
					if len(stream) > 20000 && p > 64 && p < len(stream)-64 && p%997 != 0 && p != 65536+40 && p != 65537+40 {
						continue // very large values: every 997th offset in the middle, both tiers
					}
					c := c15Case{Cfg: cc.Cfg, Port: cc.Port, Binary: binary, Stream: s.Name, Prefix: p}
					c.Overlap = p%5 == 2 || p == 0 // a fifth of the prefixes (and the empty one) run with an overlapping idle client
					msg := runC15(c, st, stream, baseL1, baseL2, baseG)
					cases++
					if c.Overlap {
						rec.Class("with-overlapping-idle-client")
					}
					nt := !isBound[p] || (strings.HasPrefix(s.Name, "quiet") && p > 0 && p < len(stream))
					rec.Case(nt, fmt.Sprintf("%s|%d|%v|%s|%d|%v", cc.Cfg, cc.Port, binary, s.Name, p, c.Overlap), "stream:"+s.Name)
					if msg != "" {
						rp := rec.Violation("TestC15Replay", c)
						t.Errorf("C15 %s port %d bin=%v stream %s (%d bytes) prefix %d: %s; replay %s", cc.Cfg, cc.Port, binary, s.Name, len(stream), p, msg, rp)
						if len(rec.Violations) > 5 {
							return
						}
						baseL1, baseL2, baseG = c15Baseline(st, cc.Port)
					}
					if nt && p%17 == 3 && rec.WantSample(true) {
						rec.Sample(true, map[string]interface{}{"config": cc.Cfg.String(), "port": cc.Port, "binary": binary, "stream": cmdsString(s.Cmds), "stream_bytes": len(stream), "prefix_sent": p})
					}
				}
			}
		}
	}
	rec.ClassN("prefix-cases", int64(cases))
	if thorough() {
		rec.MarkExhaustive("every prefix length 0..len of every representative stream, for every configuration x protocol")
	} else {
		rec.MarkExhaustive("every prefix length of every stream up to 400 bytes; for longer streams the first and last 64 offsets and every 9th in between")
	}
}

func TestC15Replay(t *testing.T) {
	path := evid.ReplayFile()
	if path == "" {
		t.Skip("no replay file")
	}
	var c c15Case
	if _, err := evid.LoadReplay(path, &c); err != nil {
		t.Fatal(err)
	}
	st := stack.Get(c.Cfg)
	st.Reset()
	var stream []byte
	for _, s := range c15Streams(c.Binary, c.Cfg.L1 == "chunked") {
		if s.Name == c.Stream {
			for _, cmd := range s.Cmds {
				stream = append(stream, encodeCmd(c.Binary, cmd)...)
			}
		}
	}
	baseL1, baseL2, baseG := c15Baseline(st, c.Port)
	if msg := runC15(c, st, stream, baseL1, baseL2, baseG); msg != "" {
		t.Fatalf("C15 replay %+v: %s", c, msg)
	}
}

// c15Second is the second, longer wait before something still held is called a leak.
func c15Second() time.Duration {
	d := hangBound()
	if d > 10*time.Second {
		noteHang()
	}
	return d
}

// TestC15Backfill: the cluster proxy's backfill mode (orcas.Backfill over two
// cluster handlers): a get is answered with misses and what the source cluster
// holds is copied to the destination.  The destination answers slowly, so that
// a client which hangs up right after its request leaves while the copy is in
// flight.  Everything opened for the client must be released, and the server
// must still be there for the next client.
func TestC15Backfill(t *testing.T) {
	rec := evid.For("C15")
	st := stack.Get(stack.Config{Shape: "backfill", Lock: "nolock", L1: "cluster", L2: "cluster"})
	st.Reset()
	for _, k := range []string{"ka", "kb"} {
		st.L1.Put(k, fakemc.Entry{Value: []byte("source-" + k), Flags: 6})
	}
	st.L2.Before = func(r *fakemc.Req) {
		if r.Opcode == fakemc.OpSet || r.Opcode == fakemc.OpSetQ {
			time.Sleep(2 * time.Millisecond)
		}
	}
	defer func() { st.L2.Before = nil }()
	streams := []c15Stream{
		{"get-hit", []wire.Cmd{{Kind: wire.Get, Keys: []string{"ka"}, Opaque: 10}}, true},
		{"get-multi", []wire.Cmd{{Kind: wire.Get, Keys: []string{"ka", "kn", "kb"}, Opaque: 20}}, true},
		{"get-quiet-batch", []wire.Cmd{{Kind: wire.Get, Keys: []string{"kb", "ka"}, NoopEnd: true, Opaque: 30}}, true},
		{"set", []wire.Cmd{{Kind: wire.Set, Key: "kc", Value: []byte("swallowed"), Opaque: 40}}, true},
		{"gets-then-quit", []wire.Cmd{{Kind: wire.Get, Keys: []string{"ka"}, Opaque: 50}, {Kind: wire.Get, Keys: []string{"kb"}, Opaque: 60}, {Kind: wire.Quit, Opaque: 70}}, true},
	}
	quiesce := func(baseL1, baseL2, baseG int) string {
		deadline := time.Now().Add(hangBound())
		for {
			l1, l2, g := st.L1.OpenConns(), st.L2.OpenConns(), runtime.NumGoroutine()
			if l1 <= baseL1 && l2 <= baseL2 && g <= baseG {
				return ""
			}
			if time.Now().After(deadline) {
				return fmt.Sprintf("source-cluster connections %d (baseline %d), destination %d (baseline %d), goroutines %d (baseline %d)", l1, baseL1, l2, baseL2, g, baseG)
			}
			time.Sleep(300 * time.Microsecond)
		}
	}
	fresh := func() string {
		// plain frames, one reply each (the backfill orchestrator answers only get, set and stat)
		conn := st.Dial(0)
		defer conn.Close()
		conn.SetDeadline(time.Now().Add(hangBound()))
		r := bufio.NewReader(conn)
		conn.Write(wire.EncodeBinary(wire.Cmd{Kind: wire.Get, Keys: []string{"ka"}, Opaque: 0xF1}))
		rep, err := wire.ReadBinReply(r)
		if err != nil || rep.Opaque != 0xF1 || rep.Status != 1 {
			return fmt.Sprintf("a fresh client's get is answered %v %s (backfill mode answers misses)", err, rep)
		}
		conn.Write(wire.EncodeBinary(wire.Cmd{Kind: wire.Set, Key: "kf", Value: []byte("x"), Opaque: 0xF2}))
		rep, err = wire.ReadBinReply(r)
		if err != nil || rep.Opaque != 0xF2 || rep.Status != 0 {
			return fmt.Sprintf("a fresh client's set is answered %v %s", err, rep)
		}
		return ""
	}
	if msg := fresh(); msg != "" {
		t.Fatalf("harness: backfill stack does not serve: %s", msg)
	}
	time.Sleep(20 * time.Millisecond)
	cases := 0
	for _, s := range streams {
		var stream []byte
		for _, cmd := range s.Cmds {
			stream = append(stream, wire.EncodeBinary(cmd)...)
		}
		for p := 0; p <= len(stream); p++ {
			for _, linger := range []time.Duration{0, 300 * time.Microsecond, 3 * time.Millisecond} {
				if msg := quiesce(0, 0, 1<<30); msg != "" {
					t.Fatalf("harness: stack not idle before the case: %s", msg)
				}
				baseG := runtime.NumGoroutine()
				a1, a2 := st.L1.Accepts(), st.L2.Accepts()
				conn := st.Dial(0)
				for i := 0; i < 20000 && (st.L1.Accepts() < a1+2 || st.L2.Accepts() < a2+2); i++ {
					time.Sleep(100 * time.Microsecond)
				}
				if p > 0 {
					conn.Write(stream[:p])
				}
				if linger > 0 {
					time.Sleep(linger)
				}
				conn.Close()
				cases++
				c := map[string]interface{}{"stream": s.Name, "prefix": p, "linger_us": linger.Microseconds()}
				rec.Case(p > 0 && p < len(stream) || linger == 0, fmt.Sprintf("backfill|%s|%d|%v", s.Name, p, linger), "backfill-mode")
				if msg := quiesce(0, 0, baseG); msg != "" {
					rp := rec.Violation("TestC15Backfill", c)
					t.Fatalf("C15 backfill mode, stream %s (%d bytes), client hangs up %v after byte %d: still held after the bound: %s; replay %s", s.Name, len(stream), linger, p, msg, rp)
				}
				if msg := fresh(); msg != "" {
					rp := rec.Violation("TestC15Backfill", c)
					t.Fatalf("C15 backfill mode, stream %s, client hung up %v after byte %d: %s; replay %s", s.Name, linger, p, msg, rp)
				}
			}
		}
	}
	rec.ClassN("backfill-prefix-cases", int64(cases))
	rec.Sample(true, map[string]interface{}{"orchestrator": "Backfill over two cluster handlers", "streams": len(streams), "prefix_cases": cases})
}

// TestC15TCPReset: the client's disconnect arrives as a TCP reset (abortive
// close, or a close with the server's answer unread) instead of an orderly
// shutdown -- at every byte offset of a few request streams.  Same oracle:
// the backend connections opened for the client are closed, its goroutines
// end, the next client is served.
func TestC15TCPReset(t *testing.T) {
	rec := evid.For("C15")
	st := stack.Get(stack.Config{Shape: "l1l2", Lock: "nolock", L1: "std", L2: "std", TCP: true})
	st.Reset()
	setup := wire.NewClient(st.Dial(0), true)
	setup.Do(wire.Cmd{Kind: wire.Set, Key: "ka", Value: []byte("prepared-a"), Flags: 1})
	setup.Close()
	baseL1, baseL2, baseG := c15Baseline(st, 0)
	val := mkValue(7, 60)
	type tstream struct {
		name   string
		binary bool
		cmds   []wire.Cmd
	}
	streams := []tstream{
		{"set", true, []wire.Cmd{{Kind: wire.Set, Key: "ka", Value: val, Flags: 3, Opaque: 11}}},
		{"get-multi", true, []wire.Cmd{{Kind: wire.Get, Keys: []string{"ka", "kn", "ka"}, Opaque: 20}}},
		{"text-set", false, []wire.Cmd{{Kind: wire.Set, Key: "ka", Value: val, Flags: 3}}},
		{"text-get", false, []wire.Cmd{{Kind: wire.Get, Keys: []string{"ka", "kn"}}}},
	}
	cases := 0
	for _, s := range streams {
		var stream []byte
		for _, cmd := range s.cmds {
			stream = append(stream, encodeCmd(s.binary, cmd)...)
		}
		for p := 0; p <= len(stream); p++ {
			for _, mode := range []string{"reset", "close-with-answer-unread"} {
				if mode == "close-with-answer-unread" && p != len(stream) {
					continue
				}
				a1, a2 := st.L1.Accepts(), st.L2.Accepts()
				conn := st.Dial(0)
				for i := 0; i < 20000 && (st.L1.Accepts() < a1+1 || st.L2.Accepts() < a2+1); i++ {
					time.Sleep(100 * time.Microsecond)
				}
				if p > 0 {
					conn.Write(stream[:p])
				}
				if mode == "reset" {
					if p%2 == 1 {
						time.Sleep(200 * time.Microsecond)
					}
					conn.(*net.TCPConn).SetLinger(0) // close() sends RST
				} else {
					time.Sleep(5 * time.Millisecond) // the answer arrives and stays unread: close() resets
				}
				conn.Close()
				cases++
				c := map[string]interface{}{"stream": s.name, "prefix": p, "mode": mode}
				rec.Case(true, fmt.Sprintf("tcpreset|%s|%d|%s", s.name, p, mode), "tcp-reset-disconnect")
				if held := c15Quiesce(st, baseL1, baseL2, baseG, hangBound()); held != "" {
					rp := rec.Violation("TestC15TCPReset", c)
					t.Fatalf("C15 over TCP, stream %s (%d bytes), client %s at byte %d: still held after the bound: %s; replay %s", s.name, len(stream), mode, p, held, rp)
				}
				cl := wire.NewClient(st.Dial(0), true)
				cl.Timeout = hangBound()
				o, err := cl.Do(wire.Cmd{Kind: wire.Get, Keys: []string{"ka"}})
				cl.Close()
				if err != nil || o.Class != wire.OK || len(o.Hits) != 1 {
					rp := rec.Violation("TestC15TCPReset", c)
					t.Fatalf("C15 over TCP, stream %s, client %s at byte %d: the next client's get is answered %v %s; replay %s", s.name, mode, p, err, o, rp)
				}
				if held := c15Quiesce(st, baseL1, baseL2, baseG, hangBound()); held != "" {
					t.Fatalf("C15 over TCP: after the next client left: %s", held)
				}
			}
		}
	}
	rec.ClassN("tcp-reset-cases", int64(cases))
	rec.Sample(true, map[string]interface{}{"listener": "loopback TCP", "disconnect": "RST (SO_LINGER 0) at every byte offset; close with the answer unread", "cases": cases})
}
