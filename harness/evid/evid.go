// Package evid collects per-run evidence (case counts, non-trivial
// fingerprints, class histogram, samples), consults the committed
// known-findings list, and writes violation replay files.
package evid

import (
	"encoding/json"
	"fmt"
	"hash/fnv"
	"os"
	"path/filepath"
	"sort"
	"strconv"
	"sync"
	"sync/atomic"
)

type Rec struct {
	mu          sync.Mutex
	Property    string                 `json:"property"`
	Evaluations int64                  `json:"evaluations"`
	Nontrivial  map[uint64]bool        `json:"-"`
	Hashes      []string               `json:"nontrivial_hashes"`
	Classes     map[string]int64       `json:"classes"`
	Samples     []interface{}          `json:"samples"`
	NTSamples   []interface{}          `json:"nontrivial_samples"`
	KnownHits   map[string]int64       `json:"known_hits"`
	Excluded    int64                  `json:"excluded_known"`
	Violations  []string               `json:"violations"`
	Extra       map[string]interface{} `json:"extra"`
	Exhaustive  []string               `json:"exhaustive"`
	maxSamples  int
}

// progress counts evidence events of the whole process (cases, classes,
// samples): a process whose count stands still is not getting anywhere.
var progress int64

// Progress returns the number of evidence events recorded so far.
func Progress() int64 { return atomic.LoadInt64(&progress) }

var (
	gmu   sync.Mutex
	recs  = map[string]*Rec{}
	known []Finding
	kOnce sync.Once
)

// Finding is one entry of known_findings.json.
type Finding struct {
	Property  string `json:"property"`
	Signature string `json:"signature"`
	What      string `json:"what"`
	Status    string `json:"status"` // open | fixed
	Commit    string `json:"commit,omitempty"`
}

func For(property string) *Rec {
	gmu.Lock()
	defer gmu.Unlock()
	r, ok := recs[property]
	if !ok {
		r = &Rec{Property: property, Nontrivial: map[uint64]bool{}, Classes: map[string]int64{}, KnownHits: map[string]int64{}, Extra: map[string]interface{}{}, maxSamples: 6}
		recs[property] = r
	}
	return r
}

func Hash(s string) uint64 {
	h := fnv.New64a()
	h.Write([]byte(s))
	return h.Sum64()
}

// Case records one executed case.  fingerprint identifies the case restricted
// to what the non-triviality rule mentions; it is only counted when nontrivial.
func (r *Rec) Case(nontrivial bool, fingerprint string, classes ...string) {
	atomic.AddInt64(&progress, 1)
	r.mu.Lock()
	defer r.mu.Unlock()
	r.Evaluations++
	if nontrivial {
		if len(r.Nontrivial) < 400000 {
			r.Nontrivial[Hash(fingerprint)] = true
		}
		r.Classes["nontrivial"]++
	}
	for _, c := range classes {
		r.Classes[c]++
	}
}

// Class bumps class counters without counting a case.
func (r *Rec) Class(classes ...string) {
	atomic.AddInt64(&progress, 1)
	r.mu.Lock()
	defer r.mu.Unlock()
	for _, c := range classes {
		r.Classes[c]++
	}
}

func (r *Rec) ClassN(class string, n int64) {
	atomic.AddInt64(&progress, 1)
	r.mu.Lock()
	defer r.mu.Unlock()
	r.Classes[class] += n
}

// Sample keeps a few of the cases, the first ones and (separately) the first
// non-trivial ones.
func (r *Rec) Sample(nontrivial bool, v interface{}) {
	atomic.AddInt64(&progress, 1)
	r.mu.Lock()
	defer r.mu.Unlock()
	if nontrivial {
		if len(r.NTSamples) < r.maxSamples {
			r.NTSamples = append(r.NTSamples, v)
		}
	} else if len(r.Samples) < 2 {
		r.Samples = append(r.Samples, v)
	}
}

func (r *Rec) WantSample(nontrivial bool) bool {
	r.mu.Lock()
	defer r.mu.Unlock()
	if nontrivial {
		return len(r.NTSamples) < r.maxSamples
	}
	return len(r.Samples) < 2
}

func (r *Rec) SetExtra(k string, v interface{}) {
	r.mu.Lock()
	defer r.mu.Unlock()
	r.Extra[k] = v
}

// MarkExhaustive records that a named finite space was enumerated completely.
func (r *Rec) MarkExhaustive(space string) {
	r.mu.Lock()
	defer r.mu.Unlock()
	r.Exhaustive = append(r.Exhaustive, space)
}

func loadKnown() {
	kOnce.Do(func() {
		p := os.Getenv("VERIF_KNOWN")
		if p == "" {
			return
		}
		b, err := os.ReadFile(p)
		if err != nil {
			return
		}
		var doc struct {
			Findings []Finding `json:"findings"`
		}
		if json.Unmarshal(b, &doc) == nil {
			known = doc.Findings
		}
	})
}

// Known reports whether sig is listed as an open known finding for this
// property, and counts the hit.
func (r *Rec) Known(sig string) bool {
	loadKnown()
	for _, f := range known {
		if f.Property == r.Property && f.Status == "open" && f.Signature == sig {
			r.mu.Lock()
			r.KnownHits[sig]++
			r.mu.Unlock()
			return true
		}
	}
	return false
}

// IsKnown is Known without counting.
func (r *Rec) IsKnown(sig string) bool {
	loadKnown()
	for _, f := range known {
		if f.Property == r.Property && f.Status == "open" && f.Signature == sig {
			return true
		}
	}
	return false
}

// ExcludedKnown counts a case (or part of one) that the generator skipped
// because it would only re-trigger a known finding.
func (r *Rec) ExcludedKnown() {
	r.mu.Lock()
	r.Excluded++
	r.mu.Unlock()
}

func outDir() string {
	d := os.Getenv("VERIF_OUT")
	if d == "" {
		d = "."
	}
	return d
}

// History saves the full failing history of a timing-dependent case (where a
// seed does not reproduce the schedule and rapid may report "flaky"), at most
// a few per process, and returns the path ("" when the cap is reached).
func (r *Rec) History(name string, payload interface{}) string {
	r.mu.Lock()
	n := len(r.Violations)
	r.mu.Unlock()
	if n >= 4 {
		return ""
	}
	return r.Violation(name, payload)
}

// Inconclusive records that a case could not be decided (a harness time budget
// was hit where hanging is not what the property is about).  The driver turns
// the marker into exit status 2 unless a violation was found.
func (r *Rec) Inconclusive(msg string) {
	f, err := os.OpenFile(filepath.Join(outDir(), "inconclusive_"+r.Property+".txt"), os.O_APPEND|os.O_CREATE|os.O_WRONLY, 0o644)
	if err != nil {
		return
	}
	defer f.Close()
	fmt.Fprintln(f, msg)
	r.Class("inconclusive-harness-timeout")
}

// Violation writes a replay file of kind "case" and returns its path.
func (r *Rec) Violation(name string, payload interface{}) string {
	r.mu.Lock()
	n := len(r.Violations)
	r.mu.Unlock()
	dir := filepath.Join(outDir(), "violations")
	os.MkdirAll(dir, 0o755)
	p := filepath.Join(dir, fmt.Sprintf("%s_%s_%d.json", r.Property, name, n))
	doc := map[string]interface{}{"kind": "case", "property": r.Property, "test": name, "case": payload}
	b, _ := json.MarshalIndent(doc, "", " ")
	os.WriteFile(p, b, 0o644)
	r.mu.Lock()
	r.Violations = append(r.Violations, p)
	r.mu.Unlock()
	return p
}

// Flush writes stats for all properties touched in this process.
func Flush() {
	gmu.Lock()
	defer gmu.Unlock()
	for _, r := range recs {
		r.mu.Lock()
		r.Hashes = r.Hashes[:0]
		for h := range r.Nontrivial {
			r.Hashes = append(r.Hashes, strconv.FormatUint(h, 16))
		}
		sort.Strings(r.Hashes)
		b, err := json.Marshal(r)
		r.mu.Unlock()
		if err != nil {
			fmt.Fprintln(os.Stderr, "evid: marshal:", err)
			continue
		}
		os.WriteFile(filepath.Join(outDir(), "stats_"+r.Property+".json"), b, 0o644)
	}
}

// Seed returns VERIF_SEED (default 1).
func Seed() int64 {
	if v, err := strconv.ParseInt(os.Getenv("VERIF_SEED"), 10, 64); err == nil {
		return v
	}
	return 1
}

// Tier returns "quick" or "thorough".
func Tier() string {
	if os.Getenv("VERIF_TIER") == "thorough" {
		return "thorough"
	}
	return "quick"
}

// Shard returns (index, count) of this process among the driver's shards.
func Shard() (int, int) {
	i, _ := strconv.Atoi(os.Getenv("VERIF_SHARD"))
	n, _ := strconv.Atoi(os.Getenv("VERIF_SHARDS"))
	if n <= 0 {
		n = 1
	}
	return i, n
}

// ReplayFile returns the path of a "case" replay file to execute, if any.
func ReplayFile() string { return os.Getenv("VERIF_REPLAY") }

// LoadReplay decodes the "case" payload of a replay file into v.
func LoadReplay(path string, v interface{}) (test string, err error) {
	b, err := os.ReadFile(path)
	if err != nil {
		return "", err
	}
	var doc struct {
		Kind string          `json:"kind"`
		Test string          `json:"test"`
		Case json.RawMessage `json:"case"`
	}
	if err := json.Unmarshal(b, &doc); err != nil {
		return "", err
	}
	return doc.Test, json.Unmarshal(doc.Case, v)
}
