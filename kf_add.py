#!/usr/bin/env python3
# usage: kf_add.py <property> <status open|fixed> <commit or -> <signature> <what>
import json,sys
p='/verif/known_findings.json'
d=json.load(open(p))
prop,status,commit,sig,what=sys.argv[1:6]
e={"property":prop,"status":status,"signature":sig,"what":what}
if status=="fixed":
    e["commit"]=commit
    e["line"]=f"fixed: property={prop} {commit} {what}"
d["findings"].append(e)
json.dump(d,open(p,'w'),indent=1)
