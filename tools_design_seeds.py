#!/usr/bin/env python3
"""Regenerates the table of independently seeded changes in DESIGN.md (section 11.2) from seeded/*/meta.json."""
import json,glob
rows=[]
for d in sorted(glob.glob('/verif/seeded/C*/meta.json')):
    m=json.load(open(d))
    caught='; '.join(f"{k}: {v}" for k,v in m['checks_run_against_it'].items())
    rows.append(f"| {m['id']} | {m['breaks_property']} | {m['needs_to_manifest']} | {caught} |")
p='/verif/DESIGN.md'
s=open(p).read()
start=s.index("| seed | property | what it needs to manifest |")
end=s.index("Misses and what was strengthened because of them")
s=s[:start]+"| seed | property | what it needs to manifest | checks run against it (quick tier) |\n|---|---|---|---|\n"+"\n".join(rows)+"\n\n"+s[end:]
open(p,'w').write(s)
print(len(rows),"seeds")
