#!/usr/bin/env python3
"""Regenerates MANIFEST.json from the table in ./check (PROPS) plus static text below."""
import json, os, re, sys, importlib.machinery, importlib.util
ROOT = os.path.dirname(os.path.abspath(__file__))
loader = importlib.machinery.SourceFileLoader("check", os.path.join(ROOT, "check"))
spec = importlib.util.spec_from_loader("check", loader)
chk = importlib.util.module_from_spec(spec); loader.exec_module(chk)

META = json.load(open(os.path.join(ROOT, "manifest_meta.json")))
props = [json.loads(l)["id"] for l in open(os.path.join(ROOT, "properties.jsonl"))]
checks, na = [], []
for pid in props:
    if pid in chk.PROPS and pid in META["checks"]:
        m = META["checks"][pid]
        checks.append({
            "property_id": pid,
            "quick_cmd": f"./check {pid} --tier quick",
            "thorough_cmd": f"./check {pid} --tier thorough",
            "evidence_file": f"/verif/evidence/{pid}.json",
            "replay_cmd_template": f"./check {pid} --replay {{path}}",
            "engine": "harness",
            "level_claimed": {"category": chk.PROPS[pid]["level"], "text": m["text"], "design_ref": m["design_ref"]},
            "level_note": m["note"],
            "technique": m["technique"],
        })
    else:
        na.append({"property_id": pid, "reason": META.get("not_applicable", {}).get(pid, "check not built yet; will be decided by property-based testing as designed in DESIGN.md")})
doc = {
    "version": 1,
    "setup_cmd": META["setup_cmd"],
    "hooks": META["hooks"],
    "engines": META["engines"],
    "checks": checks,
    "not_applicable": na,
    "notes": META["notes"],
}
json.dump(doc, open(os.path.join(ROOT, "MANIFEST.json"), "w"), indent=1)
print("checks:", [c["property_id"] for c in checks], "not_applicable:", [n["property_id"] for n in na])
